package e2

import (
	"fmt"

	"github.com/bronlabs/bron-crypto/pkg/base/algebra"
	ds "github.com/bronlabs/bron-crypto/pkg/base/datastructures"
	"github.com/bronlabs/bron-crypto/pkg/base/datastructures/hashmap"
	"github.com/bronlabs/bron-crypto/pkg/mpc"
	"github.com/bronlabs/bron-crypto/pkg/mpc/dkg/gennaro"
	"github.com/bronlabs/bron-crypto/pkg/mpc/dkg/trusteddealer"
	"github.com/bronlabs/bron-crypto/pkg/mpc/session"
	"github.com/bronlabs/bron-crypto/pkg/mpc/sharing"
	"github.com/bronlabs/bron-crypto/pkg/mpc/sharing/accessstructures"
	"github.com/bronlabs/bron-crypto/pkg/mpc/sharing/scheme/kw"
	"github.com/bronlabs/bron-crypto/pkg/mpc/sharing/vss/feldman"
	"github.com/bronlabs/bron-crypto/pkg/proofs/sigma/compiler/fiatshamir"

	"verif/engine/symalg"
)

// othersOf builds the RoundMessages map a receiver gets from everyone else.
func othersOf[M any](self sharing.ID, all map[sharing.ID]M) ds.Map[sharing.ID, M] {
	m := hashmap.NewComparable[sharing.ID, M]()
	for id, v := range all {
		if id != self {
			m.Put(id, v)
		}
	}
	return m.Freeze()
}

// unicastsTo collects, for one receiver, the unicast each sender addressed to it.
func unicastsTo[M any](self sharing.ID, out map[sharing.ID]ds.Map[sharing.ID, M]) ds.Map[sharing.ID, M] {
	m := hashmap.NewComparable[sharing.ID, M]()
	for sender, msgs := range out {
		if sender == self {
			continue
		}
		if v, ok := msgs.Get(self); ok {
			m.Put(sender, v)
		}
	}
	return m.Freeze()
}

// runGennaro executes the real Gennaro DKG round by round for all parties; returns the shards or
// the first error. tamper hooks may alter messages in flight (used by C04).
type gennaroTamper[E algebra.PrimeGroupElement[E, S], S algebra.PrimeFieldElement[S]] struct {
	R1B func(sender sharing.ID, m *gennaro.Round1Broadcast[E, S]) *gennaro.Round1Broadcast[E, S]
	R1U func(sender, recipient sharing.ID, m *gennaro.Round1Unicast[E, S]) *gennaro.Round1Unicast[E, S]
	// R2B also receives the sender's session context (what the sender itself would use to prove)
	R2B func(sender sharing.ID, ctx *session.Context, m *gennaro.Round2Broadcast[E, S]) *gennaro.Round2Broadcast[E, S]
}

type gennaroResult[E algebra.PrimeGroupElement[E, S], S algebra.PrimeFieldElement[S]] struct {
	Shards map[sharing.ID]*mpc.BaseShard[E, S]
	// Errs: error returned to a party, keyed by party; Round: the round in which it happened
	Errs  map[sharing.ID]error
	Round map[sharing.ID]int
}

func runGennaro[E algebra.PrimeGroupElement[E, S], S algebra.PrimeFieldElement[S]](env Env[E, S], tag string, as accessstructures.Monotone, ids []sharing.ID, tamper *gennaroTamper[E, S]) (*gennaroResult[E, S], error) {
	return runGennaroPol(env, tag, Policy{Build: func() (accessstructures.Monotone, error) { return as, nil }}, ids, tamper)
}

// runGennaroPol: every party constructs its OWN access-structure object (variant = party index).
func runGennaroPol[E algebra.PrimeGroupElement[E, S], S algebra.PrimeFieldElement[S]](env Env[E, S], tag string, pol Policy, ids []sharing.ID, tamper *gennaroTamper[E, S]) (*gennaroResult[E, S], error) {
	ctxs, err := makeContexts(tag, ids)
	if err != nil {
		return nil, err
	}
	group := env.Group()
	parts := map[sharing.ID]*gennaro.Participant[E, S]{}
	for i, id := range ids {
		as, err := pol.Variant(i)
		if err != nil {
			return nil, err
		}
		p, err := guarded(func() (*gennaro.Participant[E, S], error) {
			return gennaro.NewParticipant(ctxs[id], group, as, fiatshamir.Name, env.Reader(fmt.Sprintf("%s/party%d", tag, id)))
		})
		if err != nil {
			return nil, fmt.Errorf("NewParticipant(%d): %w", id, err)
		}
		parts[id] = p
	}
	res := &gennaroResult[E, S]{Shards: map[sharing.ID]*mpc.BaseShard[E, S]{}, Errs: map[sharing.ID]error{}, Round: map[sharing.ID]int{}}
	r1b := map[sharing.ID]*gennaro.Round1Broadcast[E, S]{}
	r1u := map[sharing.ID]ds.Map[sharing.ID, *gennaro.Round1Unicast[E, S]]{}
	for _, id := range ids {
		env.SetActor(fmt.Sprint(id))
		b, u, err := parts[id].Round1()
		if err != nil {
			res.Errs[id], res.Round[id] = err, 1
			return res, nil
		}
		if tamper != nil && tamper.R1B != nil {
			b = tamper.R1B(id, b)
		}
		if tamper != nil && tamper.R1U != nil {
			m := hashmap.NewComparable[sharing.ID, *gennaro.Round1Unicast[E, S]]()
			for rcpt, msg := range u.Iter() {
				m.Put(rcpt, tamper.R1U(id, rcpt, msg))
			}
			u = m.Freeze()
		}
		r1b[id], r1u[id] = b, u
	}
	r2b := map[sharing.ID]*gennaro.Round2Broadcast[E, S]{}
	for _, id := range ids {
		env.SetActor(fmt.Sprint(id))
		b, err := parts[id].Round2(othersOf(id, r1b), unicastsTo(id, r1u))
		if err != nil {
			res.Errs[id], res.Round[id] = err, 2
			continue
		}
		if tamper != nil && tamper.R2B != nil {
			b = tamper.R2B(id, ctxs[id], b)
		}
		r2b[id] = b
	}
	if len(res.Errs) > 0 {
		return res, nil
	}
	for _, id := range ids {
		env.SetActor(fmt.Sprint(id))
		sh, err := parts[id].Round3(othersOf(id, r2b))
		if err != nil {
			res.Errs[id], res.Round[id] = err, 3
			continue
		}
		res.Shards[id] = sh
	}
	return res, nil
}

// checkKeyMaterial: the obligations every key generation / dealing / refresh must satisfy:
// one public key and verification vector for all parties, shares matching public shares,
// every qualified set reconstructs x with [x]G = PK (scalar and exponent), privacy kernel query.
func checkKeyMaterial[E algebra.PrimeGroupElement[E, S], S algebra.PrimeFieldElement[S]](env Env[E, S], pfx string, as accessstructures.Monotone, ids []sharing.ID, shards map[sharing.ID]*mpc.BaseShard[E, S]) (pk E, ok bool) {
	group := env.Group()
	f := env.Field()
	g := group.Generator()
	var first *mpc.BaseShard[E, S]
	for _, id := range ids {
		sh, has := shards[id]
		if !has {
			continue
		}
		if first == nil {
			first = sh
			continue
		}
		env.Valid(pfx+"/same public key for all parties", env.EqG(sh.PublicKeyValue(), first.PublicKeyValue()))
		a, b := first.VerificationVector().Value(), sh.VerificationVector().Value()
		ra, _ := a.Dimensions()
		rb, _ := b.Dimensions()
		if env.Check(pfx+"/same verification vector length", ra == rb, "verification vector lengths differ") {
			var eqs []symalg.Pred
			for i := 0; i < ra; i++ {
				x, _ := a.Get(i, 0)
				y, _ := b.Get(i, 0)
				eqs = append(eqs, env.EqG(x, y))
			}
			env.Valid(pfx+"/same verification vector for all parties", symalg.And(eqs...))
		}
	}
	if first == nil {
		return pk, false
	}
	pk = first.PublicKeyValue()
	m := first.MSP()
	D := int(m.D())
	V := make([]E, D)
	for j := range V {
		V[j], _ = first.VerificationVector().Value().Get(j, 0)
	}
	env.Valid(pfx+"/PK = V[0]", env.EqG(pk, V[0]))
	// each share lifts to M_i·V (independently of mat.LeftAction and of NewBaseShard's own check)
	for _, id := range ids {
		sh, has := shards[id]
		if !has {
			continue
		}
		rows := holderRows(m, id)
		vals := sh.Share().Value()
		if !env.Check(pfx+"/share length = row count", len(vals) == len(rows), fmt.Sprintf("holder %d: %d values for %d rows", id, len(vals), len(rows))) {
			continue
		}
		var eqs []symalg.Pred
		for k, r := range rows {
			eqs = append(eqs, env.EqG(g.ScalarOp(vals[k]), expectedLifted(group, m, r, V)))
		}
		env.Valid(pfx+"/[share]G = M_i·V", symalg.And(eqs...))
		// the public share recorded in the shard is the same thing
		if ps, has := sh.PublicKeyShares().Get(id); env.Check(pfx+"/public share present", has, "missing public key share") {
			var e2 []symalg.Pred
			for k := range ps.Value() {
				if k < len(vals) {
					e2 = append(e2, env.EqG(ps.Value()[k], g.ScalarOp(vals[k])))
				}
			}
			env.Valid(pfx+"/public share = [private share]G", symalg.And(e2...))
		}
	}
	// reconstruction over every qualified set; refusal for unqualified ones
	scheme, err := feldman.NewScheme(group, as)
	if !env.Check(pfx+"/feldman-scheme-ok", err == nil, fmt.Sprint(err)) {
		return pk, true
	}
	for _, A := range subsetsOf(ids) {
		var sh []*kw.Share[S]
		complete := true
		for _, id := range A {
			s, has := shards[id]
			if !has {
				complete = false
				break
			}
			sh = append(sh, s.Share())
		}
		if !complete {
			continue
		}
		rec, err := scheme.Reconstruct(sh...)
		if as.IsQualified(A...) {
			if env.Check(pfx+"/qualified set reconstructs", err == nil, fmt.Sprintf("%s: %v", setName(A), err)) {
				env.Valid(pfx+"/[reconstructed secret]G = PK", env.EqG(g.ScalarOp(rec.Value()), pk))
			}
			var ls []*feldman.LiftedShare[E, S]
			for _, id := range A {
				if ps, has := shards[id].PublicKeyShares().Get(id); has {
					ls = append(ls, ps)
				}
			}
			if len(ls) == len(A) {
				if le, err := scheme.ReconstructInTheExponent(ls...); env.Check(pfx+"/exponent reconstruction ok", err == nil, fmt.Sprint(err)) {
					env.Valid(pfx+"/exponent reconstruction = PK", env.EqG(le.Value(), pk))
				}
			}
		} else {
			env.Check(pfx+"/unqualified set refused", err != nil, "unqualified set "+setName(A)+" reconstructed")
		}
	}
	_ = f
	return pk, true
}

// c03Gennaro: honest run, each party's PRNG an independent symbolic stream.
func c03Gennaro[E algebra.PrimeGroupElement[E, S], S algebra.PrimeFieldElement[S]](env Env[E, S], pol Policy) {
	env.AssumeDrawsNonZero()
	as, err := pol.Build()
	if err != nil {
		env.Reach("refused")
		return
	}
	res, err := runGennaroPol(env, "c03/"+pol.Name, pol, pol.IDs, nil)
	if err != nil {
		env.Reach("refused: " + trunc(err.Error(), 60))
		return
	}
	// the party that later checks / reconstructs builds its own policy object as well
	if as2, err := pol.Variant(len(pol.IDs) + 1); err == nil {
		as = as2
	}
	for id, e := range res.Errs {
		env.Check("C03.a/no honest party aborts", false, fmt.Sprintf("party %d aborted in round %d: %v", id, res.Round[id], e))
	}
	if len(res.Errs) > 0 {
		return
	}
	env.Reach("dkg-complete")
	pk, ok := checkKeyMaterial(env, "C03.a", as, pol.IDs, res.Shards)
	if !ok {
		return
	}
	// the key is the sum of every dealer's contribution (each party's first random draw)
	if env.Symbolic() {
		sum := env.Field().Zero()
		for _, id := range pol.IDs {
			sum = sum.Add(env.Drawn(fmt.Sprintf("c03/%s/party%d", pol.Name, id), 0))
		}
		env.Valid("C03.a/PK = [Σ dealer secrets]G", env.EqG(pk, env.Group().Generator().ScalarOp(sum)))
	}
}

// c03TrustedDealer: trusteddealer.Deal.
func c03TrustedDealer[E algebra.PrimeGroupElement[E, S], S algebra.PrimeFieldElement[S]](env Env[E, S], pol Policy) {
	env.AssumeDrawsNonZero()
	as, err := pol.Build()
	if err != nil {
		env.Reach("refused")
		return
	}
	shards, err := guarded(func() (ds.Map[sharing.ID, *mpc.BaseShard[E, S]], error) {
		return trusteddealer.Deal(env.Group(), as, env.Reader("dealer"))
	})
	if err != nil {
		env.Reach("refused")
		return
	}
	env.Reach("dealt")
	// the holders reconstruct with their own policy object
	if as2, err := pol.Variant(1); err == nil {
		as = as2
	}
	m := map[sharing.ID]*mpc.BaseShard[E, S]{}
	for id, s := range shards.Iter() {
		m[id] = s
	}
	var present []sharing.ID
	for _, id := range pol.IDs {
		if _, ok := m[id]; ok {
			present = append(present, id)
		}
	}
	checkKeyMaterial(env, "C03.b", as, present, m)
}

// protocolPolicies: the structures used for protocol-level runs.
func protocolPolicies(tier string) []Policy {
	ps := []Policy{
		thresholdPolicy(2, idPools[0][:2]),
		thresholdPolicy(2, idPools[1][:3]),
		unanimityPolicy(idPools[0][:3]),
		cnfPolicy([]int{0b001, 0b110}, idPools[0][:3]), // unq {1},{2,3}
		hierarchicalPolicy([][2]int{{1, 1}, {2, 2}}, sortedPool(idPools[1], 3)),
		gatePolicy(&gate{1, []any{&gate{2, []any{0, 1}}, &gate{2, []any{0, 2}}}}, idPools[0][:3]), // non-ideal: holder 1 owns two rows
	}
	if tier == "thorough" {
		ps = append(ps,
			thresholdPolicy(3, idPools[2][:4]),
			thresholdPolicy(2, idPools[0][:4]),
			// (a CNF in which one holder lies in EVERY maximal unqualified set, e.g. {1,2}{1,3}{1,4}, is
			// degenerate: that holder owns no MSP row — known finding C02 #1 — and consequently DKG
			// aborts and signing refuses for it; the protocol-level corpus uses a non-degenerate one)
			cnfPolicy([]int{0b0011, 0b1100, 0b0101}, idPools[0][:4]),
			hierarchicalPolicy([][2]int{{1, 2}, {3, 2}}, sortedPool(idPools[0], 4)),
		)
	}
	return ps
}

// C03Cases builds the case list.
func C03Cases(tier string, seed int64) []Case {
	var cases []Case
	for _, pol := range protocolPolicies(tier) {
		p := pol
		c := both("C03/gennaro/"+p.Name, map[string]any{"dkg": "gennaro", "policy": p.Name, "compiler": "FiatShamir"},
			func(e Env[*symalg.G, *symalg.F]) { c03Gennaro(e, p) }, nil)
		c.MustReach = []string{"dkg-complete"}
		cases = append(cases, c)
	}
	for _, pol := range protocolPolicies(tier) {
		p := pol
		c := both("C03/canetti/"+p.Name, map[string]any{"dkg": "canetti", "policy": p.Name},
			func(e Env[*symalg.G, *symalg.F]) { c03Canetti(e, p) }, nil)
		c.MustReach = []string{"dkg-complete"}
		cases = append(cases, c)
	}
	for _, pol := range append(smallPolicies(tier, seed, 4), hierarchicalExtra()...) {
		p := pol
		cases = append(cases, both("C03/trusteddealer/"+p.Name, map[string]any{"dkg": "trusted dealer", "policy": p.Name},
			func(e Env[*symalg.G, *symalg.F]) { c03TrustedDealer(e, p) }, nil))
	}
	return cases
}
