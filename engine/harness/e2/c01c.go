package e2

import (
	"fmt"
	"strings"

	ds "github.com/bronlabs/bron-crypto/pkg/base/datastructures"
	"github.com/bronlabs/bron-crypto/pkg/base/serde"
	"github.com/bronlabs/bron-crypto/pkg/mpc/dkg/trusteddealer"
	"github.com/bronlabs/bron-crypto/pkg/mpc/sharing"
	"github.com/bronlabs/bron-crypto/pkg/mpc/signatures/ecdsa/dkls23"
	dklskeygen "github.com/bronlabs/bron-crypto/pkg/mpc/signatures/ecdsa/dkls23/keygen"
	"github.com/bronlabs/bron-crypto/pkg/mpc/signatures/ecdsa/dkls23/signing_softspoken"
	"github.com/bronlabs/bron-crypto/pkg/signatures/ecdsa"

	"verif/engine/symalg"
)

// runDkls23Soft: the SoftSpoken variant of DKLs23 (ECBBOT base OTs, SoftSpoken OT extension,
// RVOLE over it), rounds 1–5 of every cosigner.
func runDkls23Soft(env *SymEnv, tag string, pol Policy, quorum []sharing.ID, msg []byte) (*dklsResult, error) {
	as, err := pol.Build()
	if err != nil {
		return nil, err
	}
	group := env.R.Group()
	dealt, err := trusteddealer.Deal[sG, sF](group, as, env.Reader("dealer"))
	if err != nil {
		return nil, err
	}
	res := &dklsResult{PSigs: map[sharing.ID]*dklsPsigDTO{}, Errs: map[sharing.ID]error{}, Round: map[sharing.ID]int{}}
	shards := map[sharing.ID]*dkls23.Shard[sG, sF, sF]{}
	for id, bs := range dealt.Iter() {
		sh, err := dklskeygen.NewShard[sG, sF, sF](bs)
		if err != nil {
			return nil, err
		}
		shards[id] = sh
		res.PK = bs.PublicKeyValue()
	}
	suite, err := ecdsa.NewSuite[sG, sF, sF](group, dklsHash)
	if err != nil {
		return nil, err
	}
	ctxs, err := makeContexts(tag, quorum)
	if err != nil {
		return nil, err
	}
	cos := map[sharing.ID]*signing_softspoken.Cosigner[sG, sF, sF]{}
	for _, id := range quorum {
		c, err := guarded(func() (*signing_softspoken.Cosigner[sG, sF, sF], error) {
			return signing_softspoken.NewCosigner(ctxs[id], suite, shards[id], env.Reader(fmt.Sprintf("%s/cosigner%d", tag, id)))
		})
		if err != nil {
			return nil, fmt.Errorf("NewCosigner(%d): %w", id, err)
		}
		cos[id] = c
	}
	r1u := map[sharing.ID]ds.Map[sharing.ID, *signing_softspoken.Round1P2P[sG, sF, sF]]{}
	for _, id := range quorum {
		env.SetActor(fmt.Sprint(id))
		u, err := guarded(func() (ds.Map[sharing.ID, *signing_softspoken.Round1P2P[sG, sF, sF]], error) { return cos[id].Round1() })
		if err != nil {
			res.Errs[id], res.Round[id] = err, 1
			return res, nil
		}
		r1u[id] = u
	}
	r2u := map[sharing.ID]ds.Map[sharing.ID, *signing_softspoken.Round2P2P[sG, sF, sF]]{}
	for _, id := range quorum {
		env.SetActor(fmt.Sprint(id))
		u, err := guarded(func() (ds.Map[sharing.ID, *signing_softspoken.Round2P2P[sG, sF, sF]], error) {
			return cos[id].Round2(unicastsTo(id, r1u))
		})
		if err != nil {
			res.Errs[id], res.Round[id] = err, 2
			continue
		}
		r2u[id] = u
	}
	if len(res.Errs) > 0 {
		return res, nil
	}
	r3b := map[sharing.ID]*signing_softspoken.Round3Broadcast[sG, sF, sF]{}
	r3u := map[sharing.ID]ds.Map[sharing.ID, *signing_softspoken.Round3P2P[sG, sF, sF]]{}
	for _, id := range quorum {
		env.SetActor(fmt.Sprint(id))
		type out struct {
			b *signing_softspoken.Round3Broadcast[sG, sF, sF]
			u ds.Map[sharing.ID, *signing_softspoken.Round3P2P[sG, sF, sF]]
		}
		o, err := guarded(func() (out, error) {
			b, u, err := cos[id].Round3(unicastsTo(id, r2u))
			return out{b, u}, err
		})
		if err != nil {
			res.Errs[id], res.Round[id] = err, 3
			continue
		}
		r3b[id], r3u[id] = o.b, o.u
	}
	if len(res.Errs) > 0 {
		return res, nil
	}
	r4b := map[sharing.ID]*signing_softspoken.Round4Broadcast[sG, sF, sF]{}
	r4u := map[sharing.ID]ds.Map[sharing.ID, *signing_softspoken.Round4P2P[sG, sF, sF]]{}
	for _, id := range quorum {
		env.SetActor(fmt.Sprint(id))
		type out struct {
			b *signing_softspoken.Round4Broadcast[sG, sF, sF]
			u ds.Map[sharing.ID, *signing_softspoken.Round4P2P[sG, sF, sF]]
		}
		o, err := guarded(func() (out, error) {
			b, u, err := cos[id].Round4(othersOf(id, r3b), unicastsTo(id, r3u))
			return out{b, u}, err
		})
		if err != nil {
			res.Errs[id], res.Round[id] = err, 4
			continue
		}
		r4b[id], r4u[id] = o.b, o.u
	}
	if len(res.Errs) > 0 {
		return res, nil
	}
	for _, id := range quorum {
		env.SetActor(fmt.Sprint(id))
		ps, err := guarded(func() (*dkls23.PartialSignature[sG, sF, sF], error) {
			return cos[id].Round5(othersOf(id, r4b), unicastsTo(id, r4u), msg)
		})
		if err != nil {
			res.Errs[id], res.Round[id] = err, 5
			continue
		}
		raw, err := ps.MarshalCBOR()
		if err != nil {
			return nil, err
		}
		dto, err := serde.UnmarshalCBOR[*dklsPsigDTO](raw)
		if err != nil {
			return nil, err
		}
		res.PSigs[id] = dto
	}
	return res, nil
}

func c01Dkls23Soft(env *SymEnv, pol Policy, quorum []sharing.ID, msg []byte) {
	env.AssumeDrawsNonZero()
	env.R.SetGenericNonIdentity(true)
	f := env.Field()
	tag := fmt.Sprintf("c01s/%s/%s", pol.Name, setName(quorum))
	res, err := runDkls23Soft(env, tag, pol, quorum, msg)
	if err != nil {
		env.Check("C01.dkls23-softspoken/setup", false, err.Error())
		return
	}
	for id, e := range res.Errs {
		if mz, ok := isDklsMeasureZero(e); ok {
			env.Reach("measure-zero refusal: " + mz)
			return
		}
		// this variant's Round4P2P validator reports a zero ψ / identity Γ as "invalid input"
		if strings.Contains(fmt.Sprintf("%+v", e), "invalid input") && res.Round[id] == 5 {
			env.Reach("measure-zero refusal: invalid input (ψ = 0 or identity Γ)")
			return
		}
		env.Check(fmt.Sprintf("C01.dkls23-softspoken/no honest cosigner aborts (round %d)", res.Round[id]), false, fmt.Sprintf("cosigner %d: %v", id, e))
		return
	}
	var R sG
	sumU, sumW := f.Zero(), f.Zero()
	for i, id := range quorum {
		dto := res.PSigs[id]
		if i == 0 {
			R = dto.R
		} else {
			env.Valid("C01.dkls23-softspoken/all cosigners report the same R", env.EqG(dto.R, R))
		}
		sumU, sumW = sumU.Add(dto.U), sumW.Add(dto.W)
	}
	rxi, err := R.AffineX()
	if !env.Check("C01.dkls23-softspoken/R has coordinates", err == nil, fmt.Sprint(err)) {
		return
	}
	rx, _ := f.FromWideBytes(rxi.Bytes())
	hh := dklsHash()
	hh.Write(msg)
	digest := hh.Sum(nil)
	m, _ := ecdsa.DigestToScalar[sF](f, digest)
	k, x := R.Dlog(), res.PK.Dlog()
	env.Valid("C01.dkls23-softspoken/(Σw)·k = (m + r_x·x)·(Σu)  [ECDSA equation for s = Σw/Σu]", env.EqF(sumW.Mul(k), m.Add(rx.Mul(x)).Mul(sumU)))
	env.Witness("C01.dkls23-softspoken/Σu ≠ 0 (the aggregator can divide)", symalg.Not(env.EqF(sumU, f.Zero())))
	env.Reach("dkls23-softspoken-done")
}
