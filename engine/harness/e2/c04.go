package e2

import (
	"encoding/binary"
	"fmt"
	"slices"

	"github.com/bronlabs/bron-crypto/pkg/base"
	"github.com/bronlabs/bron-crypto/pkg/mpc"
	"github.com/bronlabs/bron-crypto/pkg/mpc/dkg/gennaro"
	"github.com/bronlabs/bron-crypto/pkg/mpc/dkg/trusteddealer"
	"github.com/bronlabs/bron-crypto/pkg/mpc/session"
	"github.com/bronlabs/bron-crypto/pkg/mpc/sharing"
	"github.com/bronlabs/bron-crypto/pkg/mpc/sharing/scheme/kw"
	"github.com/bronlabs/bron-crypto/pkg/mpc/sharing/vss/feldman"
	"github.com/bronlabs/bron-crypto/pkg/mpc/sharing/vss/pedersen"
	"github.com/bronlabs/bron-crypto/pkg/mpc/signatures/schnorr/lindell22"
	"github.com/bronlabs/bron-crypto/pkg/mpc/signatures/schnorr/lindell22/signing"
	"github.com/bronlabs/bron-crypto/pkg/proofs/dlog/batch_schnorr"
	schnorrpok "github.com/bronlabs/bron-crypto/pkg/proofs/dlog/schnorr"
	"github.com/bronlabs/bron-crypto/pkg/proofs/sigma/compiler"
	"github.com/bronlabs/bron-crypto/pkg/proofs/sigma/compiler/fiatshamir"
	vanilla "github.com/bronlabs/bron-crypto/pkg/signatures/schnorrlike/schnorr"

	"verif/engine/symalg"
)

// C04 is explored on the model algebra only (the deviating party needs discrete logs of published
// points to re-prove altered statements, which only the model exposes).
type (
	sF = *symalg.F
	sG = *symalg.G
)

type gennaroFault struct {
	Kind      string // see c04Gennaro
	Deviator  sharing.ID
	Recipient sharing.ID // unicast faults
	Index     int        // component / vector entry
}

func (f gennaroFault) String() string {
	return fmt.Sprintf("%s/dev=%d/rcpt=%d/idx=%d", f.Kind, f.Deviator, f.Recipient, f.Index)
}

const gennaroBatchSchnorrLabel = "BRON_CRYPTO_DKG_GENNARO_BATCH_SCHNORR_PROVER_ID-"

// blameOK: every identity an honest party blames is the deviator (and, when identifiable abort is
// expected, somebody is blamed).
func blameOK(env *SymEnv, id string, err error, deviator sharing.ID, mustBlame bool) {
	culprits := base.GetMaliciousIdentities[sharing.ID](err)
	for _, c := range culprits {
		env.Check(id+"/blamed party is the deviator", c == deviator, fmt.Sprintf("blamed %d, deviator is %d (%v)", c, deviator, err))
	}
	if mustBlame {
		env.Check(id+"/deviator is blamed", len(culprits) > 0, fmt.Sprintf("no culprit tagged on %v", err))
	}
}

// c04Gennaro injects one deviation with a SYMBOLIC offset δ ≠ 0 and checks that it is caught before
// any result is accepted, for every δ (class A) — or under the random-oracle idealisation (class B).
func c04Gennaro(env *SymEnv, pol Policy, fault gennaroFault) {
	env.AssumeDrawsNonZero()
	as, err := pol.Build()
	if err != nil {
		env.Reach("refused")
		return
	}
	f := env.Field()
	group := env.R.Group()
	g := group.Generator()
	delta := env.Scalar("delta")
	env.Assume(symalg.Not(env.EqF(delta, f.Zero())))
	tag := "c04/" + pol.Name + "/" + fault.String()
	applied := false
	tamper := &gennaroTamper[sG, sF]{}
	switch fault.Kind {
	case "r1u-secret", "r1u-blinding":
		tamper.R1U = func(sender, rcpt sharing.ID, m *gennaro.Round1Unicast[sG, sF]) *gennaro.Round1Unicast[sG, sF] {
			if sender != fault.Deviator || rcpt != fault.Recipient {
				return m
			}
			secs, blds := m.Share.Secret(), m.Share.Blinding()
			if fault.Index >= len(secs) {
				return m
			}
			sv := make([]sF, len(secs))
			bv := make([]sF, len(secs))
			for i := range secs {
				sv[i], bv[i] = secs[i].Value(), blds[i].Value()
			}
			if fault.Kind == "r1u-secret" {
				sv[fault.Index] = sv[fault.Index].Add(delta)
			} else {
				bv[fault.Index] = bv[fault.Index].Add(delta)
			}
			a, _ := kw.NewShare(rcpt, sv...)
			b, _ := kw.NewShare(rcpt, bv...)
			ns, err := pedersen.NewShare(rcpt, a, b)
			if err != nil {
				return m
			}
			applied = true
			return &gennaro.Round1Unicast[sG, sF]{Share: ns}
		}
	case "r1b-vector", "r2b-vector":
		shift := func(v *feldman.VerificationVector[sG, sF]) *feldman.VerificationVector[sG, sF] {
			rows, _ := v.Value().Dimensions()
			if fault.Index >= rows {
				return v
			}
			pts := make([]sG, rows)
			for i := range pts {
				pts[i], _ = v.Value().Get(i, 0)
			}
			pts[fault.Index] = pts[fault.Index].Op(g.ScalarOp(delta))
			col, _ := columnOfPoints[sG, sF](group, pts)
			nv, err := feldman.NewVerificationVector(col, nil)
			if err != nil {
				return v
			}
			applied = true
			return nv
		}
		if fault.Kind == "r1b-vector" {
			tamper.R1B = func(sender sharing.ID, m *gennaro.Round1Broadcast[sG, sF]) *gennaro.Round1Broadcast[sG, sF] {
				if sender != fault.Deviator {
					return m
				}
				return &gennaro.Round1Broadcast[sG, sF]{PedersenVerificationVector: shift(m.PedersenVerificationVector), Proof: m.Proof}
			}
		} else {
			tamper.R2B = func(sender sharing.ID, _ *session.Context, m *gennaro.Round2Broadcast[sG, sF]) *gennaro.Round2Broadcast[sG, sF] {
				if sender != fault.Deviator {
					return m
				}
				return &gennaro.Round2Broadcast[sG, sF]{FeldmanVerificationVector: shift(m.FeldmanVerificationVector), Proof: m.Proof}
			}
		}
	case "r2b-reproved-vector", "r2b-reproved-control":
		// The deviator publishes a Feldman vector for a DIFFERENT column (entry idx shifted by δ) and
		// proves knowledge of its discrete logs honestly (it knows them). Only the Feldman share
		// check of round 3 can catch this. The control variant re-proves the unmodified vector and
		// must be accepted (it shows that the forged proofs are well-formed).
		tamper.R2B = func(sender sharing.ID, ctx *session.Context, m *gennaro.Round2Broadcast[sG, sF]) *gennaro.Round2Broadcast[sG, sF] {
			if sender != fault.Deviator {
				return m
			}
			v := m.FeldmanVerificationVector
			rows, _ := v.Value().Dimensions()
			if fault.Index >= rows {
				return m
			}
			pts := make([]sG, rows)
			wit := make([]sF, rows)
			for i := range pts {
				pts[i], _ = v.Value().Get(i, 0)
				wit[i] = pts[i].Dlog()
			}
			if fault.Kind == "r2b-reproved-vector" {
				wit[fault.Index] = wit[fault.Index].Add(delta)
				pts[fault.Index] = g.ScalarOp(wit[fault.Index])
			}
			col, _ := columnOfPoints[sG, sF](group, pts)
			nv, err := feldman.NewVerificationVector(col, nil)
			if err != nil {
				return m
			}
			proto, err := batch_schnorr.NewProtocol(rows, group, env.Reader(tag+"/forger"))
			if err != nil {
				return m
			}
			ni, err := compiler.Compile(fiatshamir.Name, proto, env.Reader(tag+"/forger"))
			if err != nil {
				return m
			}
			pctx := ctx.Clone()
			pctx.Transcript().AppendBytes(gennaroBatchSchnorrLabel, binary.LittleEndian.AppendUint64(nil, uint64(sender)))
			prover, err := ni.NewProver(pctx)
			if err != nil {
				return m
			}
			proof, err := prover.Prove(batch_schnorr.NewStatement(g, pts...), batch_schnorr.NewWitness(wit...))
			if err != nil {
				return m
			}
			applied = true
			return &gennaro.Round2Broadcast[sG, sF]{FeldmanVerificationVector: nv, Proof: proof}
		}
	case "r1b-truncated", "r1b-extended", "r2b-truncated", "r2b-extended":
		resize := func(v *feldman.VerificationVector[sG, sF]) *feldman.VerificationVector[sG, sF] {
			rows, _ := v.Value().Dimensions()
			var pts []sG
			for i := 0; i < rows; i++ {
				p, _ := v.Value().Get(i, 0)
				pts = append(pts, p)
			}
			if fault.Kind[4:] == "truncated" {
				if rows < 2 {
					return v
				}
				pts = pts[:rows-1]
			} else {
				pts = append(pts, group.OpIdentity())
			}
			col, _ := columnOfPoints[sG, sF](group, pts)
			nv, err := feldman.NewVerificationVector(col, nil)
			if err != nil {
				return v
			}
			applied = true
			return nv
		}
		if fault.Kind[:3] == "r1b" {
			tamper.R1B = func(sender sharing.ID, m *gennaro.Round1Broadcast[sG, sF]) *gennaro.Round1Broadcast[sG, sF] {
				if sender != fault.Deviator {
					return m
				}
				return &gennaro.Round1Broadcast[sG, sF]{PedersenVerificationVector: resize(m.PedersenVerificationVector), Proof: m.Proof}
			}
		} else {
			tamper.R2B = func(sender sharing.ID, _ *session.Context, m *gennaro.Round2Broadcast[sG, sF]) *gennaro.Round2Broadcast[sG, sF] {
				if sender != fault.Deviator {
					return m
				}
				return &gennaro.Round2Broadcast[sG, sF]{FeldmanVerificationVector: resize(m.FeldmanVerificationVector), Proof: m.Proof}
			}
		}
	case "r1b-dropped":
		tamper.R1B = func(sender sharing.ID, m *gennaro.Round1Broadcast[sG, sF]) *gennaro.Round1Broadcast[sG, sF] {
			if sender != fault.Deviator {
				return m
			}
			applied = true
			return nil
		}
	}

	// the re-proved variants need the deviator's participant context: run with a hook that forges
	// inside runGennaroReprove
	res, err := runGennaro[sG, sF](env, tag, as, pol.IDs, tamper)
	if err != nil {
		env.Reach("refused")
		return
	}
	if !applied {
		env.Reach("fault-not-applicable")
		return
	}
	env.Reach("fault-injected")
	if fault.Kind == "r2b-reproved-control" {
		// control: an honestly re-proved, unmodified vector is accepted by everybody
		for id, e := range res.Errs {
			env.Check("C04/control: re-proved honest vector accepted", false, fmt.Sprintf("party %d rejected the control in round %d: %v", id, res.Round[id], e))
		}
		if len(res.Errs) == 0 {
			env.Reach("control-accepted")
		}
		return
	}

	// who must reject?
	mustReject := map[sharing.ID]bool{}
	switch fault.Kind {
	case "r1u-secret", "r1u-blinding":
		mustReject[fault.Recipient] = true
	default:
		for _, id := range pol.IDs {
			if id != fault.Deviator {
				mustReject[id] = true
			}
		}
	}
	if fault.Kind == "r2b-reproved-vector" {
		// only holders whose rows have a non-zero entry in the shifted column can notice
		kws, _ := kw.NewScheme(f, as)
		m := kws.MSP()
		for id := range mustReject {
			dep := false
			for _, r := range holderRows(m, id) {
				e, _ := m.Matrix().Get(r, fault.Index)
				if !e.IsZero() {
					dep = true
				}
			}
			if !dep {
				delete(mustReject, id)
			}
		}
	}
	anyHonestRejected := false
	for _, id := range pol.IDs {
		if id == fault.Deviator {
			continue
		}
		e, rejected := res.Errs[id]
		if rejected {
			anyHonestRejected = true
			blameOK(env, "C04.gennaro/"+fault.Kind, e, fault.Deviator, true)
			env.Check("C04.gennaro/"+fault.Kind+"/error demands abort", base.ShouldAbort(e), fmt.Sprintf("error is not an abort: %v", e))
		}
		if mustReject[id] {
			env.Check("C04.gennaro/"+fault.Kind+"/party that can notice rejects (every path)", rejected, fmt.Sprintf("party %d accepted the deviation", id))
		}
	}
	if len(mustReject) > 0 {
		env.Check("C04.gennaro/"+fault.Kind+"/at least one honest party rejects", anyHonestRejected, "nobody rejected")
	}
	// whatever happened: any shard an honest party does output is consistent with its public data
	for _, id := range pol.IDs {
		if id == fault.Deviator {
			continue
		}
		if sh, ok := res.Shards[id]; ok {
			ps, has := sh.PublicKeyShares().Get(id)
			if env.Check("C04/output shard has its public share", has, "missing") {
				var eqs []symalg.Pred
				for k, v := range sh.Share().Value() {
					eqs = append(eqs, env.EqG(g.ScalarOp(v), ps.Value()[k]))
				}
				env.Valid("C04/output shard consistent with the public key share it reports", symalg.And(eqs...))
			}
		}
	}
}

var _ = slices.Sort[[]int]

// c04Lindell22: one cosigner alters its partial signature (response or nonce commitment) by a
// symbolic offset, or the nonce it opens in round 2.
func c04Lindell22(env *SymEnv, pol Policy, quorum []sharing.ID, deviator sharing.ID, kind string) {
	env.AssumeDrawsNonZero()
	as, err := pol.Build()
	if err != nil {
		env.Reach("refused")
		return
	}
	group := env.R.Group()
	f := env.Field()
	g := group.Generator()
	dealt, err := trusteddealer.Deal[sG, sF](group, as, env.Reader("dealer"))
	if err != nil {
		env.Reach("refused")
		return
	}
	shards := map[sharing.ID]*mpc.BaseShard[sG, sF]{}
	for id, sh := range dealt.Iter() {
		shards[id] = sh
	}
	delta := env.Scalar("delta")
	env.Assume(symalg.Not(env.EqF(delta, f.Zero())))
	applied := false
	tamper := &lindellTamper[sG, sF]{}
	switch kind {
	case "psig-response", "psig-nonce-commitment":
		tamper.PSig = func(sender sharing.ID, p *lindell22.PartialSignature[sG, sF]) *lindell22.PartialSignature[sG, sF] {
			if sender != deviator {
				return p
			}
			applied = true
			q := &lindell22.PartialSignature[sG, sF]{Sig: p.Sig}
			if kind == "psig-response" {
				q.Sig.S = p.Sig.S.Add(delta)
			} else {
				q.Sig.R = p.Sig.R.Op(g.ScalarOp(delta))
			}
			return q
		}
	case "r2b-nonce":
		tamper.R2B = func(sender sharing.ID, m *signing.Round2Broadcast[sG, sF, vanilla.Message]) *signing.Round2Broadcast[sG, sF, vanilla.Message] {
			if sender != deviator {
				return m
			}
			applied = true
			return &signing.Round2Broadcast[sG, sF, vanilla.Message]{BigR: schnorrpok.NewStatement[sG, sF](m.BigR.X.Op(g.ScalarOp(delta))), BigROpening: m.BigROpening, BigRProof: m.BigRProof}
		}
	}
	// exclude the measure-zero range refusals (a zero partial or aggregated response, identity nonce)
	tamper.Pre = func(ps map[sharing.ID]*lindell22.PartialSignature[sG, sF]) {
		sumS, sumR := f.Zero(), group.OpIdentity()
		for _, p := range ps {
			env.Assume(symalg.Not(env.EqF(p.Sig.S, f.Zero())))
			env.Assume(symalg.Not(env.EqG(p.Sig.R, group.OpIdentity())))
			sumS, sumR = sumS.Add(p.Sig.S), sumR.Op(p.Sig.R)
		}
		env.Assume(symalg.Not(env.EqF(sumS, f.Zero())))
		env.Assume(symalg.Not(env.EqG(sumR, group.OpIdentity())))
	}
	// the deviator is never the cosigning aggregator (quorum[0])
	res, err := runLindell22[sG, sF](env, "c04l/"+pol.Name+"/"+setName(quorum)+"/"+kind, shards, quorum, []byte("msg"), false, tamper)
	if err != nil {
		env.Check("C04.lindell22/setup", false, err.Error())
		return
	}
	for _, e := range res.Errs {
		if isRetryAbort(e) {
			env.Reach("measure-zero retry abort")
			return
		}
	}
	if !applied && len(res.Errs) == 0 {
		env.Reach("fault-not-applied")
		return
	}
	env.Reach("fault-injected")
	pfx := "C04.lindell22/" + kind
	if kind == "r2b-nonce" {
		// every honest cosigner must reject in round 3 (commitment opening / proof fail: class B)
		for _, id := range quorum {
			if id == deviator {
				continue
			}
			e, rejected := res.Errs[id]
			if env.Check(pfx+"/every honest cosigner rejects", rejected, fmt.Sprintf("cosigner %d accepted an altered nonce", id)) {
				blameOK(env, pfx, e, deviator, true)
			}
		}
		return
	}
	// partial-signature faults: both aggregators must refuse; the cosigning one blames the deviator
	env.Check(pfx+"/plain aggregator refuses", res.SigErr != nil, "aggregator released a signature built from an altered partial signature")
	if env.Check(pfx+"/cosigning aggregator refuses", res.CoSigErr != nil, "cosigning aggregator released a signature built from an altered partial signature") {
		blameOK(env, pfx+"/cosigning", res.CoSigErr, deviator, true)
		env.Check(pfx+"/abort demanded", base.ShouldAbort(res.CoSigErr), fmt.Sprint(res.CoSigErr))
	}
	if res.SigErr != nil {
		env.Check(pfx+"/plain aggregator: abort demanded", base.ShouldAbort(res.SigErr), fmt.Sprint(res.SigErr))
		blameOK(env, pfx+"/plain", res.SigErr, deviator, false)
	}
}

// C04Cases builds the fault corpus.
func C04Cases(tier string, seed int64) []Case {
	var cases []Case
	pols := []Policy{
		thresholdPolicy(2, idPools[1][:3]),
		cnfPolicy([]int{0b001, 0b110}, idPools[0][:3]),
		gatePolicy(&gate{1, []any{&gate{2, []any{0, 1}}, &gate{2, []any{0, 2}}}}, idPools[0][:3]),
	}
	if tier == "thorough" {
		pols = append(pols, thresholdPolicy(3, idPools[2][:4]), hierarchicalPolicy([][2]int{{1, 1}, {2, 2}}, sortedPool(idPools[1], 3)), unanimityPolicy(idPools[0][:3]))
	}
	for _, pol := range pols {
		p := pol
		devs := p.IDs[:1]
		if tier == "thorough" {
			devs = p.IDs
		}
		for _, dev := range devs {
			var faults []gennaroFault
			for _, rc := range p.IDs {
				if rc == dev {
					continue
				}
				for idx := 0; idx < 2; idx++ {
					faults = append(faults, gennaroFault{"r1u-secret", dev, rc, idx}, gennaroFault{"r1u-blinding", dev, rc, idx})
				}
			}
			for idx := 0; idx < 3; idx++ {
				faults = append(faults, gennaroFault{"r1b-vector", dev, 0, idx}, gennaroFault{"r2b-vector", dev, 0, idx}, gennaroFault{"r2b-reproved-vector", dev, 0, idx})
			}
			faults = append(faults, gennaroFault{"r2b-reproved-control", dev, 0, 0},
				gennaroFault{"r1b-truncated", dev, 0, 0}, gennaroFault{"r1b-extended", dev, 0, 0},
				gennaroFault{"r2b-truncated", dev, 0, 0}, gennaroFault{"r2b-extended", dev, 0, 0}, gennaroFault{"r1b-dropped", dev, 0, 0})
			for _, ft := range faults {
				fl := ft
				c := Case{ID: "C04/gennaro/" + p.Name + "/" + fl.String(), Desc: map[string]any{"protocol": "gennaro", "policy": p.Name, "fault": fl, "offset": "symbolic δ≠0"},
					Sym: func(e *SymEnv) { c04Gennaro(e, p, fl) }}
				if fl.Kind == "r2b-reproved-control" {
					c.MustReach = []string{"control-accepted"}
				}
				cases = append(cases, c)
			}
		}
	}
	for _, pol := range []Policy{thresholdPolicy(2, idPools[1][:3]), cnfPolicy([]int{0b001, 0b110}, idPools[0][:3])} {
		p := pol
		as, err := p.Build()
		if err != nil {
			continue
		}
		for _, q := range quorumsOf(as, p.IDs) {
			Q := q
			if len(Q) < 2 {
				continue
			}
			dev := Q[len(Q)-1]
			for _, kind := range []string{"psig-response", "psig-nonce-commitment", "r2b-nonce"} {
				k := kind
				cases = append(cases, Case{ID: fmt.Sprintf("C04/lindell22/%s/quorum=%s/dev=%d/%s", p.Name, setName(Q), dev, k),
					Desc: map[string]any{"protocol": "lindell22", "policy": p.Name, "quorum": Q, "deviator": dev, "fault": k, "offset": "symbolic δ≠0"},
					Sym:  func(e *SymEnv) { c04Lindell22(e, p, Q, dev, k) }, MustReach: []string{"fault-injected"}})
			}
		}
	}
	cases = append(cases, c04RedistributeCases(tier)...)
	cases = append(cases, c04CanettiCases(tier)...)
	cases = append(cases, c04Dkls23Cases(tier)...)
	cases = append(cases, c04BoldyrevaCases(tier)...)
	return cases
}

type redistConfig struct {
	From, To Policy
	Prev     []sharing.ID
	Anchored bool
}

func c04RedistributeCases(tier string) []Case {
	var cases []Case
	t23 := thresholdPolicy(2, []sharing.ID{1, 2, 3})
	cnf3 := cnfPolicy([]int{0b001, 0b110}, []sharing.ID{1, 2, 3})
	cfgs := []redistConfig{
		{t23, t23, []sharing.ID{1, 2, 3}, false},                                     // refresh
		{t23, t23, []sharing.ID{2, 3}, false},                                        // recovery of 1, no anchor
		{t23, t23, []sharing.ID{2, 3}, true},                                         // recovery of 1, anchored
		{t23, cnf3, []sharing.ID{1, 3}, true},                                        // redistribution to a structure with multi-row holders
		{cnf3, thresholdPolicy(2, []sharing.ID{2, 3, 5}), []sharing.ID{1, 2}, false}, // newcomer 5, no anchor
		{t23, cnfPolicy([]int{0b0011, 0b1100, 0b0101}, []sharing.ID{1, 2, 3, 4}), []sharing.ID{1, 2}, true},
	}
	if tier == "thorough" {
		cfgs = append(cfgs,
			redistConfig{thresholdPolicy(3, []sharing.ID{2, 3, 5, 7}), thresholdPolicy(2, []sharing.ID{1, 2, 3}), []sharing.ID{2, 3, 7}, false},
			redistConfig{t23, thresholdPolicy(3, []sharing.ID{2, 3, 5, 7}), []sharing.ID{1, 2, 3}, true},
			redistConfig{cnf3, cnf3, []sharing.ID{1, 3}, false},
		)
	}
	for ci, cfg := range cfgs {
		c := cfg
		toAS, err := c.To.Build()
		if err != nil {
			continue
		}
		nextIDs := sortedIDs(toAS.Shareholders().List())
		devs := c.Prev
		for di, dev := range devs {
			anchor := sharing.ID(0)
			if c.Anchored {
				for _, id := range c.Prev {
					if id != dev {
						anchor = id
						break
					}
				}
			}
			var faults []redistFault
			faults = append(faults, redistFault{Kind: "r1-nonzero-zero-dealing", Deviator: dev, Recipient: 0, Index: 0}, redistFault{Kind: "forged-shard", Deviator: dev, Recipient: 0, Index: 0})
			if di == 0 || tier == "thorough" {
				for _, rc := range c.Prev {
					if rc != dev {
						faults = append(faults, redistFault{Kind: "r1u-zero-share", Deviator: dev, Recipient: rc, Index: 0})
					}
				}
				for _, rc := range nextIDs {
					if rc == dev {
						continue
					}
					faults = append(faults, redistFault{Kind: "r2u-share", Deviator: dev, Recipient: rc, Index: 0}, redistFault{Kind: "r2u-share", Deviator: dev, Recipient: rc, Index: 1},
						redistFault{Kind: "r2u-share-extended", Deviator: dev, Recipient: rc, Index: 0}, redistFault{Kind: "r2u-share-truncated", Deviator: dev, Recipient: rc, Index: 0})
				}
				for idx := 0; idx < 2; idx++ {
					faults = append(faults, redistFault{Kind: "r1b-zero-vector", Deviator: dev, Recipient: 0, Index: idx}, redistFault{Kind: "r2b-next-vector", Deviator: dev, Recipient: 0, Index: idx},
						redistFault{Kind: "r2b-prev-vector", Deviator: dev, Recipient: 0, Index: idx}, redistFault{Kind: "r2b-zero-vector", Deviator: dev, Recipient: 0, Index: idx})
				}
			}
			for _, ft := range faults {
				fl := ft
				an := anchor
				cases = append(cases, Case{ID: fmt.Sprintf("C04/redistribute/cfg%d:%s→%s/prev=%s/anchor=%d/%s", ci, c.From.Name, c.To.Name, setName(c.Prev), an, fl),
					Desc: map[string]any{"protocol": "redistribute", "from": c.From.Name, "to": c.To.Name, "previous_holders": c.Prev, "anchor": an, "fault": fl, "offset": "symbolic δ≠0"},
					Sym:  func(e *SymEnv) { c04Redistribute(e, c.From, c.To, c.Prev, an, fl) }})
			}
		}
	}
	// zero-sharing faults inside Lindell22 signing, three cosigners, deviator at every position
	pol := thresholdPolicy(2, idPools[1][:3])
	Q := sortedIDs(pol.IDs)
	for _, dev := range Q {
		d := dev
		cases = append(cases, Case{ID: fmt.Sprintf("C04/lindell22/%s/quorum=%s/dev=%d/r1-nonzero-zero-dealing", pol.Name, setName(Q), d),
			Desc: map[string]any{"protocol": "lindell22", "policy": pol.Name, "quorum": Q, "deviator": d, "fault": "self-consistent dealing of a non-zero value in the zero-sharing sub-protocol", "offset": "symbolic δ≠0"},
			Sym:  func(e *SymEnv) { c04LindellZero(e, pol, Q, d, "r1-nonzero-zero-dealing", 0) }, MustReach: []string{"fault-injected"}})
		rc := Q[0]
		if rc == d {
			rc = Q[1]
		}
		cases = append(cases, Case{ID: fmt.Sprintf("C04/lindell22/%s/quorum=%s/dev=%d/r1u-zero-share/rcpt=%d", pol.Name, setName(Q), d, rc),
			Desc: map[string]any{"protocol": "lindell22", "policy": pol.Name, "quorum": Q, "deviator": d, "recipient": rc, "fault": "zero share shifted", "offset": "symbolic δ≠0"},
			Sym:  func(e *SymEnv) { c04LindellZero(e, pol, Q, d, "r1u-zero-share", rc) }, MustReach: []string{"fault-injected"}})
	}
	return cases
}
