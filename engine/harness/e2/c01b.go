package e2

import (
	"crypto/sha256"
	"fmt"
	"strings"

	ds "github.com/bronlabs/bron-crypto/pkg/base/datastructures"
	"github.com/bronlabs/bron-crypto/pkg/base/serde"
	"github.com/bronlabs/bron-crypto/pkg/mpc"
	"github.com/bronlabs/bron-crypto/pkg/mpc/dkg/trusteddealer"
	"github.com/bronlabs/bron-crypto/pkg/mpc/sharing"
	"github.com/bronlabs/bron-crypto/pkg/mpc/signatures/ecdsa/dkls23"
	dklskeygen "github.com/bronlabs/bron-crypto/pkg/mpc/signatures/ecdsa/dkls23/keygen"
	"github.com/bronlabs/bron-crypto/pkg/mpc/signatures/ecdsa/dkls23/signing_bbot"
	"github.com/bronlabs/bron-crypto/pkg/signatures/ecdsa"

	"verif/engine/symalg"
)

// DKLs23 threshold ECDSA (bbot variant: RVOLE over ECBBOT), rounds 1–4 of every cosigner run with
// the real code over the model curve. The partial signatures (R, u_i, w_i) are checked against the
// ECDSA equation WITHOUT inversion: with k = dlog(R), x = dlog(PK), r_x the (opaque) x-coordinate
// of R converted to a scalar by the library, m the digest scalar:
//
//	(Σ w_i) · k = (m + r_x·x) · (Σ u_i)      and   Σ u_i ≠ 0 generically,
//
// which is s·k = m + r_x·x for s = Σw/Σu, the equation the final signature must satisfy. The
// aggregator itself (field inversion, low-s normalisation, crypto/ecdsa verification) is outside.

type dklsPsigDTO struct {
	R sG `cbor:"r"`
	U sF `cbor:"u"`
	W sF `cbor:"w"`
}

func c01Dkls23(env *SymEnv, pol Policy, quorum []sharing.ID, msg []byte) {
	env.AssumeDrawsNonZero()
	env.R.SetGenericNonIdentity(true)
	as, err := pol.Build()
	if err != nil {
		env.Reach("refused")
		return
	}
	group := env.R.Group()
	f := env.Field()
	dealt, err := trusteddealer.Deal[sG, sF](group, as, env.Reader("dealer"))
	if err != nil {
		env.Reach("refused")
		return
	}
	var pk sG
	shards := map[sharing.ID]*dkls23.Shard[sG, sF, sF]{}
	for id, bs := range dealt.Iter() {
		sh, err := dklskeygen.NewShard[sG, sF, sF](bs)
		if !env.Check("C01.dkls23/shard-ok", err == nil, fmt.Sprint(err)) {
			return
		}
		shards[id] = sh
		pk = bs.PublicKeyValue()
	}
	var _ *mpc.BaseShard[sG, sF]
	suite, err := ecdsa.NewSuite[sG, sF, sF](group, sha256.New)
	if !env.Check("C01.dkls23/suite-ok", err == nil, fmt.Sprint(err)) {
		return
	}
	tag := fmt.Sprintf("c01d/%s/%s", pol.Name, setName(quorum))
	ctxs, err := makeContexts(tag, quorum)
	if !env.Check("C01.dkls23/contexts-ok", err == nil, fmt.Sprint(err)) {
		return
	}
	cos := map[sharing.ID]*signing_bbot.Cosigner[sG, sF, sF]{}
	for _, id := range quorum {
		c, err := guarded(func() (*signing_bbot.Cosigner[sG, sF, sF], error) {
			return signing_bbot.NewCosigner(ctxs[id], suite, shards[id], env.Reader(fmt.Sprintf("%s/cosigner%d", tag, id)))
		})
		if !env.Check("C01.dkls23/cosigner-ok", err == nil, fmt.Sprint(err)) {
			return
		}
		cos[id] = c
	}
	fail := func(round int, id sharing.ID, err error) {
		// the message validators refuse a zero blinding difference ψ = φ − χ and identity points
		// Γ_U, Γ_V, Pk: each happens with probability 1/q in an honest run (the success path must be
		// reachable: MustReach)
		txt := fmt.Sprintf("%+v", err)
		for _, mz := range []string{"invalid psi", "invalid gamma u", "invalid gamma v", "invalid Pk", "cannot create partial signature"} {
			if strings.Contains(txt, mz) {
				env.Reach("measure-zero refusal: " + mz)
				return
			}
		}
		env.Check(fmt.Sprintf("C01.dkls23/no honest cosigner aborts (round %d)", round), false, fmt.Sprintf("cosigner %d: %v", id, err))
	}
	r1b := map[sharing.ID]*signing_bbot.Round1Broadcast[sG, sF, sF]{}
	r1u := map[sharing.ID]ds.Map[sharing.ID, *signing_bbot.Round1P2P[sG, sF, sF]]{}
	for _, id := range quorum {
		env.SetActor(fmt.Sprint(id))
		b, u, err := cos[id].Round1()
		if err != nil {
			fail(1, id, err)
			return
		}
		r1b[id], r1u[id] = b, u
	}
	r2b := map[sharing.ID]*signing_bbot.Round2Broadcast[sG, sF, sF]{}
	r2u := map[sharing.ID]ds.Map[sharing.ID, *signing_bbot.Round2P2P[sG, sF, sF]]{}
	for _, id := range quorum {
		env.SetActor(fmt.Sprint(id))
		b, u, err := cos[id].Round2(othersOf(id, r1b), unicastsTo(id, r1u))
		if err != nil {
			fail(2, id, err)
			return
		}
		r2b[id], r2u[id] = b, u
	}
	r3b := map[sharing.ID]*signing_bbot.Round3Broadcast[sG, sF, sF]{}
	r3u := map[sharing.ID]ds.Map[sharing.ID, *signing_bbot.Round3P2P[sG, sF, sF]]{}
	for _, id := range quorum {
		env.SetActor(fmt.Sprint(id))
		b, u, err := cos[id].Round3(othersOf(id, r2b), unicastsTo(id, r2u))
		if err != nil {
			fail(3, id, err)
			return
		}
		r3b[id], r3u[id] = b, u
	}
	var R sG
	sumU, sumW := f.Zero(), f.Zero()
	for i, id := range quorum {
		env.SetActor(fmt.Sprint(id))
		ps, err := cos[id].Round4(othersOf(id, r3b), unicastsTo(id, r3u), msg)
		if err != nil {
			fail(4, id, err)
			return
		}
		raw, err := ps.MarshalCBOR()
		if !env.Check("C01.dkls23/partial signature encodes", err == nil, fmt.Sprint(err)) {
			return
		}
		dto, err := serde.UnmarshalCBOR[*dklsPsigDTO](raw)
		if !env.Check("C01.dkls23/partial signature decodes", err == nil, fmt.Sprint(err)) {
			return
		}
		if i == 0 {
			R = dto.R
		} else {
			env.Valid("C01.dkls23/all cosigners report the same R", env.EqG(dto.R, R))
		}
		sumU, sumW = sumU.Add(dto.U), sumW.Add(dto.W)
	}
	env.Reach("dkls23-partial-signatures")
	// r_x and m exactly as the library derives them
	rxi, err := R.AffineX()
	if !env.Check("C01.dkls23/R has coordinates", err == nil, fmt.Sprint(err)) {
		return
	}
	rx, err := f.FromWideBytes(rxi.Bytes())
	if !env.Check("C01.dkls23/rx-ok", err == nil, fmt.Sprint(err)) {
		return
	}
	digest := sha256.Sum256(msg)
	m, err := ecdsa.DigestToScalar[sF](f, digest[:])
	if !env.Check("C01.dkls23/digest-ok", err == nil, fmt.Sprint(err)) {
		return
	}
	k, x := R.Dlog(), pk.Dlog()
	env.Valid("C01.dkls23/(Σw)·k = (m + r_x·x)·(Σu)  [ECDSA equation for s = Σw/Σu]", env.EqF(sumW.Mul(k), m.Add(rx.Mul(x)).Mul(sumU)))
	env.Witness("C01.dkls23/Σu ≠ 0 (the aggregator can divide)", symalg.Not(env.EqF(sumU, f.Zero())))
	// R is the sum of the cosigners' nonce commitments
	var sumK sF = f.Zero()
	for _, id := range quorum {
		sumK = sumK.Add(env.Drawn(fmt.Sprintf("%s/cosigner%d", tag, id), 0))
	}
	_ = sumK
	env.Reach("dkls23-done")
}
