package e2

import (
	"crypto/sha256"
	"fmt"
	"hash"
	"strings"

	"github.com/bronlabs/bron-crypto/pkg/base"
	ds "github.com/bronlabs/bron-crypto/pkg/base/datastructures"
	"github.com/bronlabs/bron-crypto/pkg/base/serde"
	"github.com/bronlabs/bron-crypto/pkg/mpc/dkg/trusteddealer"
	"github.com/bronlabs/bron-crypto/pkg/mpc/sharing"
	"github.com/bronlabs/bron-crypto/pkg/mpc/signatures/ecdsa/dkls23"
	dklskeygen "github.com/bronlabs/bron-crypto/pkg/mpc/signatures/ecdsa/dkls23/keygen"
	"github.com/bronlabs/bron-crypto/pkg/mpc/signatures/ecdsa/dkls23/signing_bbot"
	"github.com/bronlabs/bron-crypto/pkg/signatures/ecdsa"

	"verif/engine/symalg"
)

// DKLs23 threshold ECDSA (bbot variant: RVOLE over ECBBOT), rounds 1–4 of every cosigner run with
// the real code over the model curve. The partial signatures (R, u_i, w_i) are checked against the
// ECDSA equation WITHOUT inversion: with k = dlog(R), x = dlog(PK), r_x the (opaque) x-coordinate
// of R converted to a scalar by the library, m the digest scalar:
//
//	(Σ w_i) · k = (m + r_x·x) · (Σ u_i)      and   Σ u_i ≠ 0 generically,
//
// which is s·k = m + r_x·x for s = Σw/Σu, the equation the final signature must satisfy. The
// aggregator itself (field inversion, low-s normalisation, crypto/ecdsa verification) is outside.

type dklsPsigDTO struct {
	R sG `cbor:"r"`
	U sF `cbor:"u"`
	W sF `cbor:"w"`
}

type dklsTamper struct {
	R2B func(sender sharing.ID, m *signing_bbot.Round2Broadcast[sG, sF, sF]) *signing_bbot.Round2Broadcast[sG, sF, sF]
	R3B func(sender sharing.ID, m *signing_bbot.Round3Broadcast[sG, sF, sF]) *signing_bbot.Round3Broadcast[sG, sF, sF]
	R3U func(sender, rcpt sharing.ID, m *signing_bbot.Round3P2P[sG, sF, sF]) *signing_bbot.Round3P2P[sG, sF, sF]
}

type dklsResult struct {
	PSigs map[sharing.ID]*dklsPsigDTO
	Errs  map[sharing.ID]error
	Round map[sharing.ID]int
	PK    sG
}

// dklsHash is the hash of the ECDSA suite used by the DKLs23 runs of the current case (a digest longer
// than the group order exercises the leftmost-bits truncation of ecdsa.DigestToScalar).
var dklsHash func() hash.Hash = sha256.New

// runDkls23 deals a key with the trusted dealer and runs rounds 1–4 of every cosigner of `quorum`.
func runDkls23(env *SymEnv, tag string, pol Policy, quorum []sharing.ID, msg []byte, tamper *dklsTamper) (*dklsResult, error) {
	as, err := pol.Build()
	if err != nil {
		return nil, err
	}
	group := env.R.Group()
	dealt, err := trusteddealer.Deal[sG, sF](group, as, env.Reader("dealer"))
	if err != nil {
		return nil, err
	}
	res := &dklsResult{PSigs: map[sharing.ID]*dklsPsigDTO{}, Errs: map[sharing.ID]error{}, Round: map[sharing.ID]int{}}
	shards := map[sharing.ID]*dkls23.Shard[sG, sF, sF]{}
	for id, bs := range dealt.Iter() {
		sh, err := dklskeygen.NewShard[sG, sF, sF](bs)
		if err != nil {
			return nil, err
		}
		shards[id] = sh
		res.PK = bs.PublicKeyValue()
	}
	suite, err := ecdsa.NewSuite[sG, sF, sF](group, dklsHash)
	if err != nil {
		return nil, err
	}
	ctxs, err := makeContexts(tag, quorum)
	if err != nil {
		return nil, err
	}
	cos := map[sharing.ID]*signing_bbot.Cosigner[sG, sF, sF]{}
	for _, id := range quorum {
		c, err := guarded(func() (*signing_bbot.Cosigner[sG, sF, sF], error) {
			return signing_bbot.NewCosigner(ctxs[id], suite, shards[id], env.Reader(fmt.Sprintf("%s/cosigner%d", tag, id)))
		})
		if err != nil {
			return nil, fmt.Errorf("NewCosigner(%d): %w", id, err)
		}
		cos[id] = c
	}
	r1b := map[sharing.ID]*signing_bbot.Round1Broadcast[sG, sF, sF]{}
	r1u := map[sharing.ID]ds.Map[sharing.ID, *signing_bbot.Round1P2P[sG, sF, sF]]{}
	for _, id := range quorum {
		env.SetActor(fmt.Sprint(id))
		b, u, err := cos[id].Round1()
		if err != nil {
			res.Errs[id], res.Round[id] = err, 1
			return res, nil
		}
		r1b[id], r1u[id] = b, u
	}
	r2b := map[sharing.ID]*signing_bbot.Round2Broadcast[sG, sF, sF]{}
	r2u := map[sharing.ID]ds.Map[sharing.ID, *signing_bbot.Round2P2P[sG, sF, sF]]{}
	for _, id := range quorum {
		env.SetActor(fmt.Sprint(id))
		b, u, err := cos[id].Round2(othersOf(id, r1b), unicastsTo(id, r1u))
		if err != nil {
			res.Errs[id], res.Round[id] = err, 2
			continue
		}
		if tamper != nil && tamper.R2B != nil {
			b = tamper.R2B(id, b)
		}
		r2b[id], r2u[id] = b, u
	}
	if len(res.Errs) > 0 {
		return res, nil
	}
	r3b := map[sharing.ID]*signing_bbot.Round3Broadcast[sG, sF, sF]{}
	r3u := map[sharing.ID]ds.Map[sharing.ID, *signing_bbot.Round3P2P[sG, sF, sF]]{}
	for _, id := range quorum {
		env.SetActor(fmt.Sprint(id))
		b, u, err := cos[id].Round3(othersOf(id, r2b), unicastsTo(id, r2u))
		if err != nil {
			res.Errs[id], res.Round[id] = err, 3
			continue
		}
		if tamper != nil && tamper.R3B != nil {
			b = tamper.R3B(id, b)
		}
		if tamper != nil && tamper.R3U != nil && u != nil {
			u = mapUnicasts(u, func(rcpt sharing.ID, m *signing_bbot.Round3P2P[sG, sF, sF]) *signing_bbot.Round3P2P[sG, sF, sF] {
				return tamper.R3U(id, rcpt, m)
			})
		}
		r3b[id], r3u[id] = b, u
	}
	if len(res.Errs) > 0 {
		return res, nil
	}
	for _, id := range quorum {
		env.SetActor(fmt.Sprint(id))
		ps, err := guarded(func() (*dkls23.PartialSignature[sG, sF, sF], error) {
			return cos[id].Round4(othersOf(id, r3b), unicastsTo(id, r3u), msg)
		})
		if err != nil {
			res.Errs[id], res.Round[id] = err, 4
			continue
		}
		raw, err := ps.MarshalCBOR()
		if err != nil {
			return nil, err
		}
		dto, err := serde.UnmarshalCBOR[*dklsPsigDTO](raw)
		if err != nil {
			return nil, err
		}
		res.PSigs[id] = dto
	}
	return res, nil
}

var dklsMeasureZero = []string{"invalid psi", "invalid gamma u", "invalid gamma v", "invalid Pk", "cannot create partial signature"}

func isDklsMeasureZero(err error) (string, bool) {
	txt := fmt.Sprintf("%+v", err)
	for _, mz := range dklsMeasureZero {
		if strings.Contains(txt, mz) {
			return mz, true
		}
	}
	return "", false
}

func c01Dkls23(env *SymEnv, pol Policy, quorum []sharing.ID, msg []byte) {
	env.AssumeDrawsNonZero()
	env.R.SetGenericNonIdentity(true)
	f := env.Field()
	tag := fmt.Sprintf("c01d/%s/%s", pol.Name, setName(quorum))
	res, err := runDkls23(env, tag, pol, quorum, msg, nil)
	if err != nil {
		env.Check("C01.dkls23/setup", false, err.Error())
		return
	}
	for id, e := range res.Errs {
		// the message validators refuse a zero blinding difference ψ = φ − χ and identity points
		// Γ_U, Γ_V, Pk, and a zero u or w: each happens with probability 1/q in an honest run (the
		// success path must be reachable: MustReach)
		if mz, ok := isDklsMeasureZero(e); ok {
			env.Reach("measure-zero refusal: " + mz)
			return
		}
		env.Check(fmt.Sprintf("C01.dkls23/no honest cosigner aborts (round %d)", res.Round[id]), false, fmt.Sprintf("cosigner %d: %v", id, e))
		return
	}
	var R sG
	sumU, sumW := f.Zero(), f.Zero()
	for i, id := range quorum {
		dto := res.PSigs[id]
		if i == 0 {
			R = dto.R
		} else {
			env.Valid("C01.dkls23/all cosigners report the same R", env.EqG(dto.R, R))
		}
		sumU, sumW = sumU.Add(dto.U), sumW.Add(dto.W)
	}
	pk := res.PK
	env.Reach("dkls23-partial-signatures")
	// r_x and m exactly as the library derives them
	rxi, err := R.AffineX()
	if !env.Check("C01.dkls23/R has coordinates", err == nil, fmt.Sprint(err)) {
		return
	}
	rx, err := f.FromWideBytes(rxi.Bytes())
	if !env.Check("C01.dkls23/rx-ok", err == nil, fmt.Sprint(err)) {
		return
	}
	hh := dklsHash()
	hh.Write(msg)
	digest := hh.Sum(nil)
	m, err := ecdsa.DigestToScalar[sF](f, digest)
	if !env.Check("C01.dkls23/digest-ok", err == nil, fmt.Sprint(err)) {
		return
	}
	k, x := R.Dlog(), pk.Dlog()
	env.Valid("C01.dkls23/(Σw)·k = (m + r_x·x)·(Σu)  [ECDSA equation for s = Σw/Σu]", env.EqF(sumW.Mul(k), m.Add(rx.Mul(x)).Mul(sumU)))
	env.Witness("C01.dkls23/Σu ≠ 0 (the aggregator can divide)", symalg.Not(env.EqF(sumU, f.Zero())))
	env.Reach("dkls23-done")
}

// c04Dkls23: one cosigner of a DKLs23 (bbot) signing deviates by a symbolic offset δ ≠ 0.
func c04Dkls23(env *SymEnv, pol Policy, quorum []sharing.ID, deviator sharing.ID, kind string) {
	dklsHash = sha256.New
	env.AssumeDrawsNonZero()
	env.R.SetGenericNonIdentity(true)
	f := env.Field()
	g := env.R.Group().Generator()
	delta := env.Scalar("delta")
	env.Assume(symalg.Not(env.EqF(delta, f.Zero())))
	applied := false
	tamper := &dklsTamper{}
	identifiable := true
	switch kind {
	case "r2b-bigR":
		tamper.R2B = func(sender sharing.ID, m *signing_bbot.Round2Broadcast[sG, sF, sF]) *signing_bbot.Round2Broadcast[sG, sF, sF] {
			if sender != deviator {
				return m
			}
			applied = true
			n := *m
			n.BigR = m.BigR.Op(g.ScalarOp(delta))
			return &n
		}
	case "r3b-pk":
		identifiable = false // the sum check cannot attribute
		tamper.R3B = func(sender sharing.ID, m *signing_bbot.Round3Broadcast[sG, sF, sF]) *signing_bbot.Round3Broadcast[sG, sF, sF] {
			if sender != deviator {
				return m
			}
			applied = true
			return &signing_bbot.Round3Broadcast[sG, sF, sF]{Pk: m.Pk.Op(g.ScalarOp(delta))}
		}
	case "r3u-gammaU", "r3u-gammaV", "r3u-atilde", "r3u-eta":
		tamper.R3U = func(sender, rcpt sharing.ID, m *signing_bbot.Round3P2P[sG, sF, sF]) *signing_bbot.Round3P2P[sG, sF, sF] {
			if sender != deviator {
				return m
			}
			applied = true
			n := *m
			switch kind {
			case "r3u-gammaU":
				n.GammaU = m.GammaU.Op(g.ScalarOp(delta))
			case "r3u-gammaV":
				n.GammaV = m.GammaV.Op(g.ScalarOp(delta))
			case "r3u-atilde":
				mr := *m.MulR3
				at := make([][]sF, len(mr.ATilde))
				for i := range at {
					at[i] = append([]sF(nil), mr.ATilde[i]...)
				}
				at[3][0] = at[3][0].Add(delta)
				mr.ATilde = at
				n.MulR3 = &mr
			case "r3u-eta":
				mr := *m.MulR3
				mr.Eta = append([]sF(nil), mr.Eta...)
				mr.Eta[0] = mr.Eta[0].Add(delta)
				n.MulR3 = &mr
			}
			return &n
		}
	}
	tag := fmt.Sprintf("c04d/%s/%s/%s/dev=%d", pol.Name, setName(quorum), kind, deviator)
	res, err := runDkls23(env, tag, pol, quorum, []byte("dkls23 message"), tamper)
	if err != nil {
		env.Check("C04.dkls23/setup", false, err.Error())
		return
	}
	if !applied {
		env.Reach("fault-not-applied")
		return
	}
	pfx := "C04.dkls23/" + kind
	any := false
	for _, id := range quorum {
		if id == deviator {
			continue
		}
		e, rejected := res.Errs[id]
		if rejected {
			if _, mz := isDklsMeasureZero(e); mz {
				env.Reach("measure-zero refusal")
				return
			}
			if pe, isPanic := e.(panicErr); isPanic {
				env.Check(pfx+"/no honest cosigner crashes", false, fmt.Sprint(pe))
				continue
			}
			any = true
			blameOK(env, pfx, e, deviator, identifiable)
			env.Check(pfx+"/error demands abort", base.ShouldAbort(e), fmt.Sprintf("cosigner %d: error is not an abort: %v", id, e))
		}
		env.Check(pfx+"/every honest cosigner rejects", rejected, fmt.Sprintf("cosigner %d accepted the deviation and produced a partial signature", id))
	}
	if any {
		env.Reach("fault-injected")
	}
}

func c04Dkls23Cases(tier string) []Case {
	var cases []Case
	pol := thresholdPolicy(2, idPools[1][:3])
	q := sortedIDs(pol.IDs)[:2]
	kinds := []string{"r2b-bigR", "r3b-pk", "r3u-gammaU", "r3u-gammaV", "r3u-atilde", "r3u-eta"}
	devs := q[:1]
	if tier == "thorough" {
		devs = q
	}
	for _, dev := range devs {
		for _, kind := range kinds {
			d, k := dev, kind
			cases = append(cases, Case{ID: fmt.Sprintf("C04/dkls23-bbot/%s/quorum=%s/dev=%d/%s", pol.Name, setName(q), d, k),
				Desc: map[string]any{"protocol": "dkls23 signing_bbot", "policy": pol.Name, "quorum": q, "deviator": d, "fault": k, "offset": "symbolic δ≠0"},
				Sym:  func(e *SymEnv) { c04Dkls23(e, pol, q, d, k) }, MustReach: []string{"fault-injected"}, NoConcreteValidation: true})
		}
	}
	return cases
}
