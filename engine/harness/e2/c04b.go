package e2

import (
	"fmt"
	"math/big"

	"github.com/bronlabs/bron-crypto/pkg/base"
	"github.com/bronlabs/bron-crypto/pkg/mpc"
	"github.com/bronlabs/bron-crypto/pkg/mpc/dkg/trusteddealer"
	"github.com/bronlabs/bron-crypto/pkg/mpc/redistribute"
	"github.com/bronlabs/bron-crypto/pkg/mpc/sharing"
	"github.com/bronlabs/bron-crypto/pkg/mpc/sharing/accessstructures/unanimity"
	"github.com/bronlabs/bron-crypto/pkg/mpc/sharing/scheme/kw"
	"github.com/bronlabs/bron-crypto/pkg/mpc/sharing/scheme/kw/msp"
	"github.com/bronlabs/bron-crypto/pkg/mpc/sharing/vss/feldman"
	"github.com/bronlabs/bron-crypto/pkg/mpc/signatures/schnorr/lindell22/signing"
	"github.com/bronlabs/bron-crypto/pkg/mpc/zero/hjky"
	vanilla "github.com/bronlabs/bron-crypto/pkg/signatures/schnorrlike/schnorr"

	"verif/engine/symalg"
)

// forgeZeroDealing: a fully self-consistent Feldman dealing of the NON-zero secret delta over the
// unanimity structure of `quorum` (what a deviating party of the HJKY zero-sharing sub-protocol
// would send: its shares verify against its vector, only the committed constant is wrong).
func forgeZeroDealing(env *SymEnv, quorum []sharing.ID, delta sF, tag string) (*hjky.Round1Broadcast[sG, sF], map[sharing.ID]*hjky.Round1P2P[sG, sF], error) {
	un, err := unanimity.NewUnanimityAccessStructure(idSet(quorum...))
	if err != nil {
		return nil, nil, err
	}
	sch, err := feldman.NewScheme[sG, sF](env.R.Group(), un)
	if err != nil {
		return nil, nil, err
	}
	out, err := sch.Deal(kw.NewSecret(delta), env.Reader(tag+"/forged-zero-dealing"))
	if err != nil {
		return nil, nil, err
	}
	us := map[sharing.ID]*hjky.Round1P2P[sG, sF]{}
	for id, s := range out.Shares().Iter() {
		us[id] = &hjky.Round1P2P[sG, sF]{ZeroShare: s}
	}
	return &hjky.Round1Broadcast[sG, sF]{VerificationVector: out.VerificationMaterial()}, us, nil
}

// shiftShare adds delta to component idx of a share (ok=false when idx is out of range).
func shiftShare(s *kw.Share[sF], idx int, delta sF) (*kw.Share[sF], bool) {
	vals := append([]sF(nil), s.Value()...)
	if idx >= len(vals) {
		return s, false
	}
	vals[idx] = vals[idx].Add(delta)
	ns, err := kw.NewShare(s.ID(), vals...)
	if err != nil {
		return s, false
	}
	return ns, true
}

// shiftVector multiplies entry idx of a verification vector by g^delta.
func shiftVector(env *SymEnv, v *feldman.VerificationVector[sG, sF], idx int, delta sF) (*feldman.VerificationVector[sG, sF], bool) {
	group := env.R.Group()
	rows, _ := v.Value().Dimensions()
	if idx >= rows {
		return v, false
	}
	pts := make([]sG, rows)
	for i := range pts {
		pts[i], _ = v.Value().Get(i, 0)
	}
	pts[idx] = pts[idx].Op(group.Generator().ScalarOp(delta))
	col, _ := columnOfPoints[sG, sF](group, pts)
	nv, err := feldman.NewVerificationVector(col, nil)
	if err != nil {
		return v, false
	}
	return nv, true
}

// kernelColumn searches a small-integer column c with c[0] != 0 and M_rows·c = 0 for the rows of
// the given holders (exists iff the holders are unqualified).
func kernelColumn(env *SymEnv, m *msp.MSP[sF], holders []sharing.ID) []sF {
	d := int(m.D())
	var rows []int
	for _, h := range holders {
		rows = append(rows, holderRows(m, h)...)
	}
	bound := 9
	if d >= 4 {
		bound = 4
	}
	konst := func(v int) sF {
		c := env.Const(big.NewInt(int64(abs(v))))
		if v < 0 {
			return c.Neg()
		}
		return c
	}
	cur := make([]int, d)
	var found []sF
	var rec func(i int) bool
	rec = func(i int) bool {
		if i == d {
			if cur[0] == 0 {
				return false
			}
			cs := make([]sF, d)
			for k := range cs {
				cs[k] = konst(cur[k])
			}
			for _, r := range rows {
				acc := env.Field().Zero()
				for k := 0; k < d; k++ {
					e, _ := m.Matrix().Get(r, k)
					acc = acc.Add(e.Mul(cs[k]))
				}
				if !acc.IsZero() {
					return false
				}
			}
			found = cs
			return true
		}
		for v := -bound; v <= bound; v++ {
			cur[i] = v
			if rec(i + 1) {
				return true
			}
		}
		return false
	}
	rec(0)
	return found
}

func abs(v int) int {
	if v < 0 {
		return -v
	}
	return v
}

type redistFault struct {
	Kind      string
	Deviator  sharing.ID
	Recipient sharing.ID
	Index     int
	Prefix    string // obligation prefix (default C04.redistribute)
}

func (f redistFault) String() string {
	return fmt.Sprintf("%s/dev=%d/rcpt=%d/idx=%d", f.Kind, f.Deviator, f.Recipient, f.Index)
}

// c04Redistribute: trusted dealing on `from`, then one redistribution driven by prevHolders to
// `to` in which one previous holder deviates. Newcomers trust `anchor` (0: no anchor), which is
// never the deviator.
func c04Redistribute(env *SymEnv, from, to Policy, prevHolders []sharing.ID, anchor sharing.ID, fault redistFault) {
	env.AssumeDrawsNonZero()
	fromAS, err1 := from.Build()
	toAS, err2 := to.Build()
	if err1 != nil || err2 != nil {
		env.Reach("refused")
		return
	}
	f := env.Field()
	group := env.R.Group()
	g := group.Generator()
	dealt, err := trusteddealer.Deal[sG, sF](group, fromAS, env.Reader("dealer"))
	if err != nil {
		env.Reach("refused")
		return
	}
	shards := map[sharing.ID]*mpc.BaseShard[sG, sF]{}
	for id, sh := range dealt.Iter() {
		shards[id] = sh
	}
	pk0 := shards[prevHolders[0]].PublicKeyValue()
	delta := env.Scalar("delta")
	env.Assume(symalg.Not(env.EqF(delta, f.Zero())))
	tag := "c04r/" + from.Name + "→" + to.Name + "/" + fault.String()
	pfx := "C04.redistribute/" + fault.Kind
	if fault.Prefix != "" {
		pfx = fault.Prefix + "/" + fault.Kind
	}
	applied := false
	isPrev := map[sharing.ID]bool{}
	for _, id := range prevHolders {
		isPrev[id] = true
	}
	nextIDs := sortedIDs(toAS.Shareholders().List())
	tamper := &redistTamper[sG, sF]{}
	identifiable := true // every party that rejects must also name the deviator
	switch fault.Kind {
	case "r1-nonzero-zero-dealing":
		fb, fu, err := forgeZeroDealing(env, prevHolders, delta, tag)
		if err != nil {
			env.Reach("fault-not-applicable")
			return
		}
		tamper.R1B = func(sender sharing.ID, m *redistribute.Round1Broadcast[sG, sF]) *redistribute.Round1Broadcast[sG, sF] {
			if sender != fault.Deviator {
				return m
			}
			applied = true
			return &redistribute.Round1Broadcast[sG, sF]{ZeroR1: fb}
		}
		tamper.R1U = func(sender, rcpt sharing.ID, m *redistribute.Round1P2P[sG, sF]) *redistribute.Round1P2P[sG, sF] {
			if sender != fault.Deviator {
				return m
			}
			return &redistribute.Round1P2P[sG, sF]{ZeroR1: fu[rcpt]}
		}
	case "r1u-zero-share":
		tamper.R1U = func(sender, rcpt sharing.ID, m *redistribute.Round1P2P[sG, sF]) *redistribute.Round1P2P[sG, sF] {
			if sender != fault.Deviator || rcpt != fault.Recipient {
				return m
			}
			ns, ok := shiftShare(m.ZeroR1.ZeroShare, fault.Index, delta)
			if !ok {
				return m
			}
			applied = true
			return &redistribute.Round1P2P[sG, sF]{ZeroR1: &hjky.Round1P2P[sG, sF]{ZeroShare: ns}}
		}
	case "r1b-zero-vector":
		tamper.R1B = func(sender sharing.ID, m *redistribute.Round1Broadcast[sG, sF]) *redistribute.Round1Broadcast[sG, sF] {
			if sender != fault.Deviator {
				return m
			}
			nv, ok := shiftVector(env, m.ZeroR1.VerificationVector, fault.Index, delta)
			if !ok {
				return m
			}
			applied = true
			return &redistribute.Round1Broadcast[sG, sF]{ZeroR1: &hjky.Round1Broadcast[sG, sF]{VerificationVector: nv}}
		}
	case "r2u-share", "r2u-share-extended", "r2u-share-truncated":
		tamper.R2U = func(sender, rcpt sharing.ID, m *redistribute.Round2P2P[sG, sF]) *redistribute.Round2P2P[sG, sF] {
			if sender != fault.Deviator || rcpt != fault.Recipient {
				return m
			}
			s := m.NextShareContribution
			var ns *kw.Share[sF]
			switch fault.Kind {
			case "r2u-share":
				var ok bool
				if ns, ok = shiftShare(s, fault.Index, delta); !ok {
					return m
				}
			case "r2u-share-extended":
				ns, _ = kw.NewShare(s.ID(), append(append([]sF(nil), s.Value()...), delta)...)
			case "r2u-share-truncated":
				if len(s.Value()) < 2 {
					return m
				}
				ns, _ = kw.NewShare(s.ID(), s.Value()[:len(s.Value())-1]...)
			}
			if ns == nil {
				return m
			}
			applied = true
			return &redistribute.Round2P2P[sG, sF]{NextShareContribution: ns}
		}
	case "r2b-next-vector", "r2b-prev-vector", "r2b-zero-vector":
		tamper.R2B = func(sender sharing.ID, m *redistribute.Round2Broadcast[sG, sF]) *redistribute.Round2Broadcast[sG, sF] {
			if sender != fault.Deviator {
				return m
			}
			n := *m
			var ok bool
			switch fault.Kind {
			case "r2b-next-vector":
				n.NextVerificationVectorContribution, ok = shiftVector(env, m.NextVerificationVectorContribution, fault.Index, delta)
			case "r2b-prev-vector":
				n.PrevVerificationVector, ok = shiftVector(env, m.PrevVerificationVector, fault.Index, delta)
			case "r2b-zero-vector":
				n.ZeroVerificationVector, ok = shiftVector(env, m.ZeroVerificationVector, fault.Index, delta)
			}
			if !ok {
				return m
			}
			applied = true
			return &n
		}
	case "forged-shard":
		// The deviator enters the protocol with a self-consistent shard of a DIFFERENT key: dealer
		// column shifted by δ·c, where c vanishes on the rows of the honest previous holders (so
		// the forged sharing agrees with everything they hold) and c[0] ≠ 0.
		identifiable = false
		old := shards[fault.Deviator]
		m := old.MSP()
		var honest []sharing.ID
		for _, id := range prevHolders {
			if id != fault.Deviator {
				honest = append(honest, id)
			}
		}
		c := kernelColumn(env, m, honest)
		if c == nil {
			env.Reach("fault-not-applicable")
			return
		}
		vals := append([]sF(nil), old.Share().Value()...)
		for k, r := range holderRows(m, fault.Deviator) {
			acc := f.Zero()
			for j := range c {
				e, _ := m.Matrix().Get(r, j)
				acc = acc.Add(e.Mul(c[j]))
			}
			vals[k] = vals[k].Add(acc.Mul(delta))
		}
		ns, err := kw.NewShare(fault.Deviator, vals...)
		if err != nil {
			env.Reach("fault-not-applicable")
			return
		}
		rows, _ := old.VerificationVector().Value().Dimensions()
		pts := make([]sG, rows)
		for i := range pts {
			pts[i], _ = old.VerificationVector().Value().Get(i, 0)
			pts[i] = pts[i].Op(g.ScalarOp(c[i].Mul(delta)))
		}
		col, _ := columnOfPoints[sG, sF](group, pts)
		nv, err := feldman.NewVerificationVector(col, nil)
		if err != nil {
			env.Reach("fault-not-applicable")
			return
		}
		forged, err := mpc.NewBaseShard(ns, nv, m)
		if err != nil {
			env.Check(pfx+"/harness: forged shard is self-consistent", false, err.Error())
			return
		}
		shards[fault.Deviator] = forged
		applied = true
	}

	res, err := runRedistribute[sG, sF](env, tag, prevHolders, shards, toAS, anchor, tamper)
	if err != nil {
		env.Check(pfx+"/setup", false, err.Error())
		return
	}
	for _, e := range res.Errs {
		if isRetryAbort(e) {
			env.Reach("measure-zero retry abort")
			return
		}
	}
	if !applied {
		env.Reach("fault-not-applicable")
		return
	}
	env.Reach("fault-injected")

	// who has a trusted reference (and therefore must attribute what it notices)?
	hasReference := func(id sharing.ID) bool { return isPrev[id] || anchor != 0 }
	mustReject := map[sharing.ID]bool{}
	switch fault.Kind {
	case "r1-nonzero-zero-dealing", "r1b-zero-vector":
		for _, id := range prevHolders {
			mustReject[id] = true
		}
		if fault.Kind == "r1b-zero-vector" && fault.Index > 0 {
			// only holders whose rows of the unanimity MSP depend on that column can notice
			mustReject = map[sharing.ID]bool{}
		}
	case "r1u-zero-share", "r2u-share", "r2u-share-extended", "r2u-share-truncated":
		mustReject[fault.Recipient] = true
	case "r2b-next-vector":
		if fault.Index == 0 {
			for _, id := range nextIDs {
				mustReject[id] = true
			}
		}
	case "r2b-prev-vector", "r2b-zero-vector":
		for _, id := range nextIDs {
			if hasReference(id) {
				mustReject[id] = true
			}
		}
	case "forged-shard":
		for _, id := range nextIDs {
			mustReject[id] = true
		}
	}
	delete(mustReject, fault.Deviator)
	anyReject := false
	for _, id := range unionIDs(prevHolders, nextIDs) {
		if id == fault.Deviator {
			continue
		}
		e, rejected := res.Errs[id]
		if rejected {
			anyReject = true
			if pe, isPanic := e.(panicErr); isPanic {
				env.Check(pfx+"/no honest party crashes", false, fmt.Sprintf("party %d panicked in round %d: %v", id, res.Round[id], pe))
				continue
			}
			blameOK(env, pfx, e, fault.Deviator, identifiable && (hasReference(id) || res.Round[id] < 3 || fault.Kind[:3] == "r2u"))
			env.Check(pfx+"/error demands abort", base.ShouldAbort(e), fmt.Sprintf("party %d: error is not an abort: %v", id, e))
		}
		if mustReject[id] {
			env.Check(pfx+"/party that can notice rejects (every path)", rejected, fmt.Sprintf("party %d accepted the deviation", id))
		}
	}
	if len(mustReject) > 0 {
		env.Check(pfx+"/at least one honest party rejects", anyReject, "nobody rejected")
	}
	// whatever happened: a shard an honest party does output carries the ORIGINAL public key and is
	// consistent with the public key share it reports
	for _, id := range nextIDs {
		if id == fault.Deviator {
			continue
		}
		sh, ok := res.Shards[id]
		if !ok {
			continue
		}
		env.Valid(pfx+"/accepted shard still carries the original public key", env.EqG(sh.PublicKeyValue(), pk0))
		ps, has := sh.PublicKeyShares().Get(id)
		if env.Check(pfx+"/output shard has its public share", has, "missing") {
			var eqs []symalg.Pred
			for k, v := range sh.Share().Value() {
				eqs = append(eqs, env.EqG(g.ScalarOp(v), ps.Value()[k]))
			}
			env.Valid(pfx+"/output shard consistent with the public key share it reports", symalg.And(eqs...))
		}
	}
}

// c04LindellZero: a cosigner replaces its zero-sharing dealing in round 1 of Lindell22 signing.
func c04LindellZero(env *SymEnv, pol Policy, quorum []sharing.ID, deviator sharing.ID, kind string, rcpt sharing.ID) {
	env.AssumeDrawsNonZero()
	as, err := pol.Build()
	if err != nil {
		env.Reach("refused")
		return
	}
	group := env.R.Group()
	f := env.Field()
	dealt, err := trusteddealer.Deal[sG, sF](group, as, env.Reader("dealer"))
	if err != nil {
		env.Reach("refused")
		return
	}
	shards := map[sharing.ID]*mpc.BaseShard[sG, sF]{}
	for id, sh := range dealt.Iter() {
		shards[id] = sh
	}
	delta := env.Scalar("delta")
	env.Assume(symalg.Not(env.EqF(delta, f.Zero())))
	tag := fmt.Sprintf("c04lz/%s/%s/%s/dev=%d", pol.Name, setName(quorum), kind, deviator)
	applied := false
	tamper := &lindellTamper[sG, sF]{}
	switch kind {
	case "r1-nonzero-zero-dealing":
		fb, fu, err := forgeZeroDealing(env, quorum, delta, tag)
		if err != nil {
			env.Reach("fault-not-applicable")
			return
		}
		tamper.R1B = func(sender sharing.ID, m *signing.Round1Broadcast[sG, sF, vanilla.Message]) *signing.Round1Broadcast[sG, sF, vanilla.Message] {
			if sender != deviator {
				return m
			}
			applied = true
			return &signing.Round1Broadcast[sG, sF, vanilla.Message]{BigRCommitment: m.BigRCommitment, ZeroR1: fb}
		}
		tamper.R1U = func(sender, to sharing.ID, m *signing.Round1P2P[sG, sF, vanilla.Message]) *signing.Round1P2P[sG, sF, vanilla.Message] {
			if sender != deviator {
				return m
			}
			return &signing.Round1P2P[sG, sF, vanilla.Message]{ZeroR1: fu[to]}
		}
	case "r1u-zero-share":
		tamper.R1U = func(sender, to sharing.ID, m *signing.Round1P2P[sG, sF, vanilla.Message]) *signing.Round1P2P[sG, sF, vanilla.Message] {
			if sender != deviator || to != rcpt {
				return m
			}
			ns, ok := shiftShare(m.ZeroR1.ZeroShare, 0, delta)
			if !ok {
				return m
			}
			applied = true
			return &signing.Round1P2P[sG, sF, vanilla.Message]{ZeroR1: &hjky.Round1P2P[sG, sF]{ZeroShare: ns}}
		}
	}
	res, err := runLindell22[sG, sF](env, tag, shards, quorum, []byte("msg"), false, tamper)
	if err != nil {
		env.Check("C04.lindell22/setup", false, err.Error())
		return
	}
	for _, e := range res.Errs {
		if isRetryAbort(e) {
			env.Reach("measure-zero retry abort")
			return
		}
	}
	if !applied {
		env.Reach("fault-not-applicable")
		return
	}
	env.Reach("fault-injected")
	pfx := "C04.lindell22/" + kind
	for _, id := range quorum {
		if id == deviator {
			continue
		}
		e, rejected := res.Errs[id]
		if rejected {
			blameOK(env, pfx, e, deviator, true)
			env.Check(pfx+"/error demands abort", base.ShouldAbort(e), fmt.Sprintf("cosigner %d: %v", id, e))
		}
		if kind == "r1-nonzero-zero-dealing" || id == rcpt {
			env.Check(pfx+"/every honest cosigner that can notice rejects", rejected, fmt.Sprintf("cosigner %d accepted a zero sharing that does not share zero", id))
		}
	}
}
