package e2

import (
	"fmt"

	"github.com/bronlabs/bron-crypto/pkg/base"
	"github.com/bronlabs/bron-crypto/pkg/base/algebra"
	ds "github.com/bronlabs/bron-crypto/pkg/base/datastructures"
	"github.com/bronlabs/bron-crypto/pkg/base/serde"
	"github.com/bronlabs/bron-crypto/pkg/mpc"
	"github.com/bronlabs/bron-crypto/pkg/mpc/dkg/canetti"
	"github.com/bronlabs/bron-crypto/pkg/mpc/sharing"
	"github.com/bronlabs/bron-crypto/pkg/mpc/sharing/scheme/kw"
	"github.com/bronlabs/bron-crypto/pkg/proofs/dlog/batch_schnorr"
	"github.com/bronlabs/bron-crypto/pkg/proofs/sigma"
	"github.com/bronlabs/bron-crypto/pkg/proofs/sigma/compiler/fiatshamir/zkmodule"

	"verif/engine/symalg"
)

type canettiTamper[E algebra.PrimeGroupElement[E, S], S algebra.PrimeFieldElement[S]] struct {
	R1B func(sender sharing.ID, m *canetti.Round1Broadcast[E, S]) *canetti.Round1Broadcast[E, S]
	R2B func(sender sharing.ID, m *canetti.Round2Broadcast[E, S]) *canetti.Round2Broadcast[E, S]
	R2U func(sender, rcpt sharing.ID, m *canetti.Round2P2P[E, S]) *canetti.Round2P2P[E, S]
	R3B func(sender sharing.ID, m *canetti.Round3Broadcast[E, S]) *canetti.Round3Broadcast[E, S]
	// Twin: the deviator commits in round 1 as prescribed, but sends in rounds 2 and 3 what a second
	// instance of itself produces whose AltAt-th random draw is replaced by an independent one
	// (everything else identical): a coordinated deviation across two rounds, e.g. opening another
	// Schnorr commitment than the one committed to and proving with it.
	Twin *canettiTwin
}

type canettiTwin struct {
	ID    sharing.ID
	AltAt int
	// filled in by runCanetti
	Used            bool
	ADiffers        bool // the twin's opened Schnorr commitment differs from the original's
	OthersIdentical bool // … and X, rho and the commitment witness coincide
	Calls           int  // consumptions of the original party's stream in round 1
}

// runCanetti executes the real Canetti DKG round by round (every party builds its own policy
// object, as in runGennaroPol).
func runCanetti[E algebra.PrimeGroupElement[E, S], S algebra.PrimeFieldElement[S]](env Env[E, S], tag string, pol Policy, ids []sharing.ID, tamper *canettiTamper[E, S]) (*gennaroResult[E, S], error) {
	ctxs, err := makeContexts(tag, ids)
	if err != nil {
		return nil, err
	}
	group := env.Group()
	parts := map[sharing.ID]*canetti.Participant[E, S]{}
	for i, id := range ids {
		as, err := pol.Variant(i)
		if err != nil {
			return nil, err
		}
		p, err := guarded(func() (*canetti.Participant[E, S], error) {
			return canetti.NewParticipant(ctxs[id], as, group, env.Reader(fmt.Sprintf("%s/party%d", tag, id)))
		})
		if err != nil {
			return nil, fmt.Errorf("NewParticipant(%d): %w", id, err)
		}
		parts[id] = p
	}
	var twin *canetti.Participant[E, S]
	if tamper != nil && tamper.Twin != nil {
		se, isSym := any(env).(*SymEnv)
		if !isSym {
			return nil, fmt.Errorf("twin deviations need the symbolic environment")
		}
		tctxs, err := makeContexts(tag, ids)
		if err != nil {
			return nil, err
		}
		for i, id := range ids {
			if id != tamper.Twin.ID {
				continue
			}
			as, err := pol.Variant(i)
			if err != nil {
				return nil, err
			}
			twin, err = guarded(func() (*canetti.Participant[E, S], error) {
				return canetti.NewParticipant(tctxs[id], as, group, se.R.ReaderTwin(fmt.Sprintf("%s/party%d", tag, id), tamper.Twin.AltAt))
			})
			if err != nil {
				return nil, fmt.Errorf("NewParticipant(twin %d): %w", id, err)
			}
		}
	}
	res := &gennaroResult[E, S]{Shards: map[sharing.ID]*mpc.BaseShard[E, S]{}, Errs: map[sharing.ID]error{}, Round: map[sharing.ID]int{}}
	r1b := map[sharing.ID]*canetti.Round1Broadcast[E, S]{}
	for _, id := range ids {
		env.SetActor(fmt.Sprint(id))
		b, err := guarded(func() (*canetti.Round1Broadcast[E, S], error) { return parts[id].Round1() })
		if err != nil {
			res.Errs[id], res.Round[id] = err, 1
			return res, nil
		}
		if tamper != nil && tamper.R1B != nil {
			b = tamper.R1B(id, b)
		}
		r1b[id] = b
		if twin != nil && id == tamper.Twin.ID {
			if se, ok := any(env).(*SymEnv); ok {
				tamper.Twin.Calls = se.R.Reader(fmt.Sprintf("%s/party%d", tag, id)).Calls()
			}
			if _, err := guarded(func() (*canetti.Round1Broadcast[E, S], error) { return twin.Round1() }); err != nil {
				return nil, fmt.Errorf("twin round 1: %w", err)
			}
		}
	}
	r2b := map[sharing.ID]*canetti.Round2Broadcast[E, S]{}
	r2u := map[sharing.ID]ds.Map[sharing.ID, *canetti.Round2P2P[E, S]]{}
	for _, id := range ids {
		env.SetActor(fmt.Sprint(id))
		type out struct {
			b *canetti.Round2Broadcast[E, S]
			u ds.Map[sharing.ID, *canetti.Round2P2P[E, S]]
		}
		o, err := guarded(func() (out, error) {
			b, u, err := parts[id].Round2(othersOf(id, r1b))
			return out{b, u}, err
		})
		if err != nil {
			res.Errs[id], res.Round[id] = err, 2
			continue
		}
		b, u := o.b, o.u
		if twin != nil && id == tamper.Twin.ID {
			to, err := guarded(func() (out, error) {
				b, u, err := twin.Round2(othersOf(id, r1b))
				return out{b, u}, err
			})
			if err != nil {
				return nil, fmt.Errorf("twin round 2: %w", err)
			}
			tw := tamper.Twin
			tw.Used = true
			tw.ADiffers = !to.b.Message.A.A.Equal(b.Message.A.A)
			tw.OthersIdentical = to.b.Message.X.Equal(b.Message.X) && string(to.b.Message.Rho) == string(b.Message.Rho) && to.b.U == b.U
			b, u = to.b, to.u
		}
		if tamper != nil && tamper.R2B != nil {
			b = tamper.R2B(id, b)
		}
		if tamper != nil && tamper.R2U != nil && u != nil {
			u = mapUnicasts(u, func(rcpt sharing.ID, m *canetti.Round2P2P[E, S]) *canetti.Round2P2P[E, S] {
				return tamper.R2U(id, rcpt, m)
			})
		}
		// messages travel by value on a real network: Round3 XORs into the slice its own broadcast
		// message points to, so hand the recipients a copy
		if b != nil && b.Message != nil {
			msg := *b.Message
			msg.Rho = append([]byte(nil), msg.Rho...)
			b = &canetti.Round2Broadcast[E, S]{Message: &msg, U: b.U}
		}
		r2b[id], r2u[id] = b, u
	}
	if len(res.Errs) > 0 {
		return res, nil
	}
	r3b := map[sharing.ID]*canetti.Round3Broadcast[E, S]{}
	for _, id := range ids {
		env.SetActor(fmt.Sprint(id))
		b, err := guarded(func() (*canetti.Round3Broadcast[E, S], error) {
			return parts[id].Round3(othersOf(id, r2b), unicastsTo(id, r2u))
		})
		if err != nil {
			res.Errs[id], res.Round[id] = err, 3
			continue
		}
		if twin != nil && id == tamper.Twin.ID {
			tb, err := guarded(func() (*canetti.Round3Broadcast[E, S], error) {
				return twin.Round3(othersOf(id, r2b), unicastsTo(id, r2u))
			})
			if err != nil {
				return nil, fmt.Errorf("twin round 3: %w", err)
			}
			b = tb
		}
		if tamper != nil && tamper.R3B != nil {
			b = tamper.R3B(id, b)
		}
		r3b[id] = b
	}
	if len(res.Errs) > 0 {
		return res, nil
	}
	for _, id := range ids {
		env.SetActor(fmt.Sprint(id))
		sh, err := guarded(func() (*mpc.BaseShard[E, S], error) { return parts[id].Round4(othersOf(id, r3b)) })
		if err != nil {
			res.Errs[id], res.Round[id] = err, 4
			continue
		}
		res.Shards[id] = sh
	}
	return res, nil
}

// c03Canetti: honest run of the Canetti DKG, every party's stream symbolic.
func c03Canetti[E algebra.PrimeGroupElement[E, S], S algebra.PrimeFieldElement[S]](env Env[E, S], pol Policy) {
	env.AssumeDrawsNonZero()
	as, err := pol.Build()
	if err != nil {
		env.Reach("refused")
		return
	}
	res, err := runCanetti(env, "c03c/"+pol.Name, pol, pol.IDs, nil)
	if err != nil {
		env.Reach("refused: " + trunc(err.Error(), 60))
		return
	}
	if as2, err := pol.Variant(len(pol.IDs) + 1); err == nil {
		as = as2
	}
	for id, e := range res.Errs {
		env.Check("C03.c/no honest party aborts", false, fmt.Sprintf("party %d aborted in round %d: %v", id, res.Round[id], e))
	}
	if len(res.Errs) > 0 {
		return
	}
	env.Reach("dkg-complete")
	pk, ok := checkKeyMaterial(env, "C03.c", as, pol.IDs, res.Shards)
	if !ok {
		return
	}
	if env.Symbolic() {
		sum := env.Field().Zero()
		for _, id := range pol.IDs {
			sum = sum.Add(env.Drawn(fmt.Sprintf("c03c/%s/party%d", pol.Name, id), 0))
		}
		env.Valid("C03.c/PK = [Σ dealer secrets]G", env.EqG(pk, env.Group().Generator().ScalarOp(sum)))
	}
}

type canettiFault struct {
	Kind      string
	Deviator  sharing.ID
	Recipient sharing.ID
	Index     int
}

func (f canettiFault) String() string {
	return fmt.Sprintf("%s/dev=%d/rcpt=%d/idx=%d", f.Kind, f.Deviator, f.Recipient, f.Index)
}

type psiDTO struct {
	A *batch_schnorr.Commitment[sG, sF] `cbor:"A"`
	E sigma.ChallengeBytes              `cbor:"E"`
	Z *batch_schnorr.Response[sF]       `cbor:"Z"`
}

// c04Canetti: one deviation in the Canetti DKG.
func c04Canetti(env *SymEnv, pol Policy, fault canettiFault) {
	env.AssumeDrawsNonZero()
	if _, err := pol.Build(); err != nil {
		env.Reach("refused")
		return
	}
	f := env.Field()
	g := env.R.Group().Generator()
	delta := env.Scalar("delta")
	env.Assume(symalg.Not(env.EqF(delta, f.Zero())))
	tag := "c04c/" + pol.Name + "/" + fault.String()
	pfx := "C04.canetti/" + fault.Kind
	applied := false
	tamper := &canettiTamper[sG, sF]{}
	switch fault.Kind {
	case "r1b-commitment-bit":
		tamper.R1B = func(sender sharing.ID, m *canetti.Round1Broadcast[sG, sF]) *canetti.Round1Broadcast[sG, sF] {
			if sender != fault.Deviator {
				return m
			}
			n := *m
			n.V[fault.Index%len(n.V)] ^= 0x40
			applied = true
			return &n
		}
	case "r2b-x-entry", "r2b-rho-bit", "r2b-witness-bit", "r2b-wrong-sharing-id":
		tamper.R2B = func(sender sharing.ID, m *canetti.Round2Broadcast[sG, sF]) *canetti.Round2Broadcast[sG, sF] {
			if sender != fault.Deviator {
				return m
			}
			msg := *m.Message
			n := &canetti.Round2Broadcast[sG, sF]{Message: &msg, U: m.U}
			switch fault.Kind {
			case "r2b-x-entry":
				nv, ok := shiftVector(env, msg.X, fault.Index, delta)
				if !ok {
					return m
				}
				msg.X = nv
			case "r2b-rho-bit":
				rho := append([]byte(nil), msg.Rho...)
				rho[fault.Index%len(rho)] ^= 0x01
				msg.Rho = rho
			case "r2b-witness-bit":
				n.U[fault.Index%len(n.U)] ^= 0x80
			case "r2b-wrong-sharing-id":
				msg.SharingID = fault.Recipient
			}
			applied = true
			return n
		}
	case "r2u-share", "r2u-share-extended", "r2u-share-truncated":
		tamper.R2U = func(sender, rcpt sharing.ID, m *canetti.Round2P2P[sG, sF]) *canetti.Round2P2P[sG, sF] {
			if sender != fault.Deviator || rcpt != fault.Recipient {
				return m
			}
			s := m.Share
			var ns *kw.Share[sF]
			switch fault.Kind {
			case "r2u-share":
				var ok bool
				if ns, ok = shiftShare(s, fault.Index, delta); !ok {
					return m
				}
			case "r2u-share-extended":
				ns, _ = kw.NewShare(s.ID(), append(append([]sF(nil), s.Value()...), delta)...)
			case "r2u-share-truncated":
				if len(s.Value()) < 2 {
					return m
				}
				ns, _ = kw.NewShare(s.ID(), s.Value()[:len(s.Value())-1]...)
			}
			if ns == nil {
				return m
			}
			applied = true
			return &canetti.Round2P2P[sG, sF]{Share: ns}
		}
	case "r3b-response", "r3b-commitment":
		tamper.R3B = func(sender sharing.ID, m *canetti.Round3Broadcast[sG, sF]) *canetti.Round3Broadcast[sG, sF] {
			if sender != fault.Deviator {
				return m
			}
			dto := psiDTO{A: m.Psi.Commitment(), E: m.Psi.Challenge(), Z: m.Psi.Response()}
			if fault.Kind == "r3b-response" {
				dto.Z = &batch_schnorr.Response[sF]{Z: dto.Z.Z.Add(delta)}
			} else {
				dto.A = &batch_schnorr.Commitment[sG, sF]{A: dto.A.A.Op(g.ScalarOp(delta))}
			}
			b, err := serde.MarshalCBOR(dto)
			if err != nil {
				return m
			}
			var np zkmodule.Proof[*batch_schnorr.Commitment[sG, sF], *batch_schnorr.Response[sF]]
			if err := np.UnmarshalCBOR(b); err != nil {
				return m
			}
			applied = true
			return &canetti.Round3Broadcast[sG, sF]{Psi: &np}
		}
	}
	var res *gennaroResult[sG, sF]
	var err error
	if fault.Kind == "r2r3-reopens-with-another-proof-commitment" {
		// find the draw that is the proof nonce: the twin's opened message must differ from the
		// original's in the Schnorr commitment and in nothing else
		for idx := 0; idx < 24 && !applied; idx++ {
			tamper.Twin = &canettiTwin{ID: fault.Deviator, AltAt: idx}
			res, err = runCanetti[sG, sF](env, fmt.Sprintf("%s/draw%d", tag, idx), pol, pol.IDs, tamper)
			if err != nil {
				env.Reach("refused: " + trunc(err.Error(), 80))
				return
			}
			tw := tamper.Twin
			applied = tw.Used && tw.ADiffers && tw.OthersIdentical
			if idx >= tw.Calls && !applied {
				break
			}
		}
		env.Check(pfx+"/harness: the deviator's proof nonce was located among its round-1 draws", applied, "no single draw changes exactly the Schnorr commitment")
	} else {
		res, err = runCanetti[sG, sF](env, tag, pol, pol.IDs, tamper)
		if err != nil {
			env.Reach("refused")
			return
		}
	}
	if !applied {
		env.Reach("fault-not-applicable")
		return
	}
	env.Reach("fault-injected")
	mustReject := map[sharing.ID]bool{}
	switch fault.Kind {
	case "r2u-share", "r2u-share-extended", "r2u-share-truncated":
		mustReject[fault.Recipient] = true
	default:
		for _, id := range pol.IDs {
			mustReject[id] = true
		}
	}
	delete(mustReject, fault.Deviator)
	any := false
	for _, id := range pol.IDs {
		if id == fault.Deviator {
			continue
		}
		e, rejected := res.Errs[id]
		if rejected {
			any = true
			if pe, isPanic := e.(panicErr); isPanic {
				env.Check(pfx+"/no honest party crashes", false, fmt.Sprintf("party %d panicked in round %d: %v", id, res.Round[id], pe))
				continue
			}
			blameOK(env, pfx, e, fault.Deviator, true)
			env.Check(pfx+"/error demands abort", base.ShouldAbort(e), fmt.Sprintf("party %d: error is not an abort: %v", id, e))
		}
		if mustReject[id] {
			env.Check(pfx+"/party that can notice rejects (every path)", rejected, fmt.Sprintf("party %d accepted the deviation", id))
		}
	}
	env.Check(pfx+"/at least one honest party rejects", any, "nobody rejected")
	for _, id := range pol.IDs {
		if id == fault.Deviator {
			continue
		}
		if sh, ok := res.Shards[id]; ok {
			ps, has := sh.PublicKeyShares().Get(id)
			if env.Check(pfx+"/output shard has its public share", has, "missing") {
				var eqs []symalg.Pred
				for k, v := range sh.Share().Value() {
					eqs = append(eqs, env.EqG(g.ScalarOp(v), ps.Value()[k]))
				}
				env.Valid(pfx+"/output shard consistent with the public key share it reports", symalg.And(eqs...))
			}
		}
	}
}

func c04CanettiCases(tier string) []Case {
	var cases []Case
	pols := []Policy{thresholdPolicy(2, idPools[1][:3]), gatePolicy(&gate{1, []any{&gate{2, []any{0, 1}}, &gate{2, []any{0, 2}}}}, idPools[0][:3])}
	if tier == "thorough" {
		pols = append(pols, cnfPolicy([]int{0b001, 0b110}, idPools[0][:3]), thresholdPolicy(3, idPools[2][:4]))
	}
	for _, pol := range pols {
		p := pol
		devs := p.IDs[:1]
		if tier == "thorough" {
			devs = p.IDs
		}
		for _, dev := range devs {
			var faults []canettiFault
			faults = append(faults, canettiFault{"r1b-commitment-bit", dev, 0, 3}, canettiFault{"r2b-rho-bit", dev, 0, 5}, canettiFault{"r2b-witness-bit", dev, 0, 7},
				canettiFault{"r3b-response", dev, 0, 0}, canettiFault{"r3b-commitment", dev, 0, 0}, canettiFault{"r2r3-reopens-with-another-proof-commitment", dev, 0, 0})
			for idx := 0; idx < 2; idx++ {
				faults = append(faults, canettiFault{"r2b-x-entry", dev, 0, idx})
			}
			for _, rc := range p.IDs {
				if rc == dev {
					continue
				}
				faults = append(faults, canettiFault{"r2u-share", dev, rc, 0}, canettiFault{"r2u-share", dev, rc, 1}, canettiFault{"r2u-share-extended", dev, rc, 0},
					canettiFault{"r2u-share-truncated", dev, rc, 0}, canettiFault{"r2b-wrong-sharing-id", dev, rc, 0})
			}
			for _, ft := range faults {
				fl := ft
				cases = append(cases, Case{ID: "C04/canetti/" + p.Name + "/" + fl.String(), Desc: map[string]any{"protocol": "canetti", "policy": p.Name, "fault": fl, "offset": "symbolic δ≠0 / bit flip"},
					Sym: func(e *SymEnv) { c04Canetti(e, p, fl) }})
			}
		}
	}
	return cases
}
