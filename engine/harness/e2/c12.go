package e2

import (
	"bytes"
	"fmt"

	"github.com/fxamacker/cbor/v2"

	"github.com/bronlabs/bron-crypto/pkg/base/algebra"
	"github.com/bronlabs/bron-crypto/pkg/base/algebra/constructions"
	"github.com/bronlabs/bron-crypto/pkg/base/mat"
	"github.com/bronlabs/bron-crypto/pkg/base/polynomials"
	"github.com/bronlabs/bron-crypto/pkg/base/serde"
	pedcom "github.com/bronlabs/bron-crypto/pkg/commitments/pedersencom"
	"github.com/bronlabs/bron-crypto/pkg/encryption/elgamal"
	"github.com/bronlabs/bron-crypto/pkg/mpc"
	"github.com/bronlabs/bron-crypto/pkg/mpc/dkg/trusteddealer"
	"github.com/bronlabs/bron-crypto/pkg/mpc/sharing"
	"github.com/bronlabs/bron-crypto/pkg/mpc/sharing/scheme/kw"
	"github.com/bronlabs/bron-crypto/pkg/mpc/sharing/scheme/kw/msp"
	"github.com/bronlabs/bron-crypto/pkg/mpc/sharing/scheme/shamir"
	"github.com/bronlabs/bron-crypto/pkg/mpc/sharing/vss/feldman"
	"github.com/bronlabs/bron-crypto/pkg/mpc/sharing/vss/pedersen"
	"github.com/bronlabs/bron-crypto/pkg/signatures/schnorrlike"

	"verif/engine/symalg"
)

// C12 at the DTO boundary. The bytes handed to UnmarshalCBOR are produced by the library's own
// encoder from a harness-side clone of the (unexported) DTO struct, whose leaves are ARBITRARY
// symbolic field / group elements and whose shapes range over a small concrete corpus. The real
// decoder (fxamacker/cbor through serde, strict mode), the real UnmarshalCBOR and the real
// validating constructor then run natively; every branch on an element is decided by the solver.
// Obligation pattern: on every path where decoding ACCEPTS, the constructor's validity predicate is
// valid; on every path where it REJECTS, the predicate's negation is valid (or the rejection is
// structural); the decoder never panics.

type cborUnmarshaler interface{ UnmarshalCBOR([]byte) error }
type cborMarshaler interface{ MarshalCBOR() ([]byte, error) }

// c12Decode encodes dto with the library encoder and feeds it to target.UnmarshalCBOR.
func c12Decode(env *SymEnv, pfx string, dto any, target cborUnmarshaler) (accepted bool) {
	b, err := serde.MarshalCBOR(dto)
	if err != nil {
		env.Check(pfx+"/harness: DTO encodes", false, err.Error())
		return false
	}
	return c12DecodeBytes(env, pfx, b, target)
}

func c12DecodeBytes(env *SymEnv, pfx string, b []byte, target cborUnmarshaler) (accepted bool) {
	_, err := guarded(func() (struct{}, error) { return struct{}{}, target.UnmarshalCBOR(b) })
	if pe, isPanic := err.(panicErr); isPanic {
		env.Check(pfx+"/decoder never panics", false, fmt.Sprint(pe))
		return false
	}
	return err == nil
}

// c12MustReject: structural defects are refused.
func c12MustReject(env *SymEnv, id string, dto any, target cborUnmarshaler) {
	env.Check(id, !c12Decode(env, id, dto, target), "decoder accepted it")
}

// c12RoundTrip: a valid value encodes deterministically and decodes to an equal value; malformed
// containers built from its encoding (trailing byte, truncation, unknown field, duplicate key,
// indefinite-length map) are refused.
func c12RoundTrip[T cborMarshaler](env *SymEnv, pfx string, v T, fresh func() (cborUnmarshaler, func() T), equal func(a, b T) bool) {
	b1, err := v.MarshalCBOR()
	if !env.Check(pfx+"/valid value encodes", err == nil, fmt.Sprint(err)) {
		return
	}
	b1b, _ := v.MarshalCBOR()
	env.Check(pfx+"/encoding is deterministic", bytes.Equal(b1, b1b), "two encodings of the same value differ")
	tgt, get := fresh()
	if !env.Check(pfx+"/valid encoding is accepted", c12DecodeBytes(env, pfx, b1, tgt), "decoder refused a valid encoding") {
		return
	}
	v2 := get()
	env.Check(pfx+"/decode(encode(v)) equals v", equal(v, v2), "decoded value differs")
	b2, err := v2.MarshalCBOR()
	env.Check(pfx+"/re-encoding is byte-identical", err == nil && bytes.Equal(b1, b2), "re-encoding differs")
	env.Reach(pfx + "/round-trip")

	bad := func(id string, b []byte) {
		t, _ := fresh()
		env.Check(pfx+"/malformed container refused: "+id, !c12DecodeBytes(env, pfx+"/"+id, b, t), "accepted")
	}
	bad("trailing byte", append(append([]byte(nil), b1...), 0x00))
	bad("truncated by one byte", b1[:len(b1)-1])
	bad("empty input", nil)
	bad("CBOR null", []byte{0xf6})
	bad("CBOR undefined", []byte{0xf7})
	// container-level surgery on the outer map
	var m map[string]cbor.RawMessage
	if err := cbor.Unmarshal(b1, &m); err == nil && len(m) > 0 && len(m) < 22 && b1[0] == byte(0xa0+len(m)) {
		body := b1[1:]
		var k0 string
		for k := range m {
			if k0 == "" || k < k0 {
				k0 = k
			}
		}
		kb, _ := cbor.Marshal(k0)
		pair := append(append([]byte(nil), kb...), m[k0]...)
		bad("duplicate key", append(append([]byte{byte(0xa0 + len(m) + 1)}, body...), pair...))
		ukb, _ := cbor.Marshal("zz_unknown")
		bad("unknown field", append(append(append([]byte{byte(0xa0 + len(m) + 1)}, body...), ukb...), 0x01))
		bad("indefinite-length map", append(append([]byte{0xbf}, body...), 0xff))
		// structure-preserving mutation: each field in turn replaced by null / undefined. A pointer
		// field becomes nil without its decoder being called, a value field's decoder is called with
		// the null: neither may panic (a field that is legitimately optional may be accepted).
		dec := cbor.NewDecoder(bytes.NewReader(body))
		var keys, vals []cbor.RawMessage
		for i := 0; i < len(m); i++ {
			var k, v cbor.RawMessage
			if dec.Decode(&k) != nil || dec.Decode(&v) != nil {
				keys = nil
				break
			}
			keys, vals = append(keys, k), append(vals, v)
		}
		// each field in turn REMOVED (a map that lacks the key leaves the DTO's field at its zero value,
		// a nil pointer for pointer fields), and the empty map: never a panic
		for i := range keys {
			mut := []byte{byte(0xa0 + len(keys) - 1)}
			for j := range keys {
				if j != i {
					mut = append(append(mut, keys[j]...), vals[j]...)
				}
			}
			t, _ := fresh()
			if c12DecodeBytes(env, fmt.Sprintf("%s/field %d removed", pfx, i), mut, t) {
				env.Reach(pfx + "/a missing field is accepted (optional field)")
			}
		}
		{
			t, _ := fresh()
			env.Check(pfx+"/malformed container refused: empty map", !c12DecodeBytes(env, pfx+"/empty map", []byte{0xa0}, t), "accepted")
		}
		for i := range keys {
			for _, nul := range []byte{0xf6, 0xf7} {
				mut := []byte{b1[0]}
				for j := range keys {
					mut = append(mut, keys[j]...)
					if j == i {
						mut = append(mut, nul)
					} else {
						mut = append(mut, vals[j]...)
					}
				}
				t, _ := fresh()
				if c12DecodeBytes(env, fmt.Sprintf("%s/field %d ← %#x", pfx, i, nul), mut, t) {
					env.Reach(pfx + "/a null field is accepted (optional field)")
				}
			}
		}
	}
}

// harness-side DTO clones (same CBOR keys as the unexported DTOs of the library)
type (
	kwShareDTO struct {
		ID sharing.ID `cbor:"id"`
		V  []sF       `cbor:"value"`
	}
	shamirShareDTO struct {
		ID sharing.ID `cbor:"sharingID"`
		V  sF         `cbor:"value"`
	}
	feldmanLiftedShareDTO struct {
		ID sharing.ID `cbor:"id"`
		V  []sG       `cbor:"value"`
	}
	pedersenShareDTO struct {
		ID       sharing.ID            `cbor:"sharingID"`
		Secret   []*pedcom.Message[sF] `cbor:"secret"`
		Blinding []*pedcom.Witness[sF] `cbor:"blinding"`
	}
	matrixDTOc struct {
		Rows int  `cbor:"rows"`
		Cols int  `cbor:"cols"`
		Data []sF `cbor:"data"`
	}
	mvMatrixDTOc struct {
		Rows int  `cbor:"rows"`
		Cols int  `cbor:"cols"`
		Data []sG `cbor:"data"`
	}
	squareDTOc struct {
		Size int  `cbor:"size"`
		Data []sF `cbor:"data"`
	}
	mspDTOc struct {
		Matrix        *mat.Matrix[sF]
		RowsToHolders map[int]sharing.ID
	}
	vvDTOc struct {
		V *mat.ModuleValuedMatrix[sG, sF] `cbor:"verification_vector"`
	}
	bpmDTOc struct {
		MSP                *msp.MSP[sF]                        `cbor:"msp"`
		VerificationVector *feldman.VerificationVector[sG, sF] `cbor:"verificationVector"`
	}
	shardDTOc struct {
		Share *kw.Share[sF]                   `cbor:"share"`
		PM    *mpc.BasePublicMaterial[sG, sF] `cbor:"publicMaterial"`
	}
	ckDTOc struct {
		G sG `cbor:"g"`
		H sG `cbor:"h"`
	}
	tdDTOc struct {
		G      sG `cbor:"g"`
		Lambda sF `cbor:"lambda"`
	}
	egPkDTOc struct {
		H sG `cbor:"h"`
	}
	egCtDTOc struct {
		V *constructions.FiniteDirectPowerModuleElement[sG, sF] `cbor:"v"`
	}
	egSkDTOc struct {
		G sG `cbor:"g"`
		A sF `cbor:"a"`
	}
	schnorrPkDTOc struct {
		PK sG `cbor:"publicKey"`
	}
	polyDTOc struct {
		Coeffs []sF `cbor:"coefficients"`
	}
)

// iff records, for one decode of an arbitrary DTO, the two directions of "accepted ⇔ pred".
func c12Iff(env *SymEnv, pfx string, accepted bool, pred symalg.Pred) {
	if accepted {
		env.Valid(pfx+"/accepted ⇒ constructor's validity predicate holds", pred)
		env.Reach(pfx + "/accepting path")
	} else {
		env.Valid(pfx+"/rejected ⇒ validity predicate fails", symalg.Not(pred))
		env.Reach(pfx + "/rejecting path")
	}
}

func c12Keys(env *SymEnv) {
	env.R.SetSerializationOnly(true)
	f, group := env.Field(), env.R.Group()
	id := group.OpIdentity()
	// Pedersen commitment key: arbitrary g, h
	{
		g, h := env.Point("ck.g"), env.Point("ck.h")
		var k pedcom.CommitmentKey[sG, sF]
		acc := c12Decode(env, "C12.pedersencom.CommitmentKey", ckDTOc{g, h}, &k)
		c12Iff(env, "C12.pedersencom.CommitmentKey", acc, symalg.And(symalg.Not(env.EqG(g, h)), symalg.Not(env.EqG(g, id)), symalg.Not(env.EqG(h, id))))
		if acc {
			env.Valid("C12.pedersencom.CommitmentKey/decoded generators are the encoded ones", symalg.And(env.EqG(k.G(), g), env.EqG(k.H(), h)))
		}
	}
	{
		g, lam := env.Point("td.g"), env.Scalar("td.lambda")
		var k pedcom.TrapdoorKey[sG, sF]
		acc := c12Decode(env, "C12.pedersencom.TrapdoorKey", tdDTOc{g, lam}, &k)
		c12Iff(env, "C12.pedersencom.TrapdoorKey", acc, symalg.And(symalg.Not(env.EqG(g, id)), symalg.Not(env.EqF(lam, f.Zero())), symalg.Not(env.EqF(lam, f.One()))))
		if acc {
			env.Valid("C12.pedersencom.TrapdoorKey/h = g^lambda", env.EqG(k.H(), g.ScalarOp(lam)))
		}
	}
	{
		h := env.Point("eg.h")
		var k elgamal.PublicKey[sG, sF]
		acc := c12Decode(env, "C12.elgamal.PublicKey", egPkDTOc{h}, &k)
		c12Iff(env, "C12.elgamal.PublicKey", acc, symalg.Not(env.EqG(h, id)))
	}
	{
		g, a := env.Point("egsk.g"), env.Scalar("egsk.a")
		var k elgamal.SecretKey[sG, sF]
		acc := c12Decode(env, "C12.elgamal.SecretKey", egSkDTOc{g, a}, &k)
		c12Iff(env, "C12.elgamal.SecretKey", acc, symalg.And(symalg.Not(env.EqG(g, id)), symalg.Not(env.EqF(a, f.Zero())), symalg.Not(env.EqF(a, f.One()))))
		if acc {
			env.Valid("C12.elgamal.SecretKey/public part = g^a", env.EqG(k.Public().Value(), g.ScalarOp(a)))
		}
	}
	{
		// ElGamal ciphertext: a direct-power element that must have exactly two components (and,
		// like the constructor demands, neither the identity)
		c1, c2, c3 := env.Point("egct.c1"), env.Point("egct.c2"), env.Point("egct.c3")
		mkV := func(pts ...sG) *constructions.FiniteDirectPowerModuleElement[sG, sF] {
			mod, err := constructions.NewFiniteDirectPowerModule(algebra.PrimeGroup[sG, sF](env.R.Group()), uint(len(pts)))
			if err != nil {
				return nil
			}
			v, err := mod.New(pts...)
			if err != nil {
				return nil
			}
			return v
		}
		if v2 := mkV(c1, c2); v2 != nil {
			var ct elgamal.Ciphertext[sG, sF]
			acc := c12Decode(env, "C12.elgamal.Ciphertext", egCtDTOc{v2}, &ct)
			if acc {
				comps := ct.Value().Components()
				env.Check("C12.elgamal.Ciphertext/accepted value has the two decoded components", len(comps) == 2, fmt.Sprint(len(comps)))
				if len(comps) == 2 {
					env.Valid("C12.elgamal.Ciphertext/accepted components are the encoded ones", symalg.And(env.EqG(comps[0], c1), env.EqG(comps[1], c2)))
				}
				env.Reach("C12.elgamal.Ciphertext/accepted")
			}
		}
		if v1 := mkV(c1); v1 != nil {
			c12MustReject(env, "C12.elgamal.Ciphertext/one component refused", egCtDTOc{v1}, &elgamal.Ciphertext[sG, sF]{})
		}
		if v3 := mkV(c1, c2, c3); v3 != nil {
			c12MustReject(env, "C12.elgamal.Ciphertext/three components refused", egCtDTOc{v3}, &elgamal.Ciphertext[sG, sF]{})
		}
		c12MustReject(env, "C12.elgamal.Ciphertext/nil refused", egCtDTOc{nil}, &elgamal.Ciphertext[sG, sF]{})
	}
	{
		p := env.Point("schnorr.pk")
		var k schnorrlike.PublicKey[sG, sF]
		acc := c12Decode(env, "C12.schnorrlike.PublicKey", schnorrPkDTOc{p}, &k)
		c12Iff(env, "C12.schnorrlike.PublicKey", acc, symalg.Not(env.EqG(p, id)))
	}
	// nil leaves
	c12MustReject(env, "C12.pedersencom.CommitmentKey/nil generator refused", ckDTOc{nil, env.Point("x")}, &pedcom.CommitmentKey[sG, sF]{})
	c12MustReject(env, "C12.elgamal.SecretKey/nil scalar refused", egSkDTOc{env.Point("y"), nil}, &elgamal.SecretKey[sG, sF]{})
	c12MustReject(env, "C12.schnorrlike.PublicKey/nil refused", schnorrPkDTOc{nil}, &schnorrlike.PublicKey[sG, sF]{})
}

func c12Shares(env *SymEnv) {
	env.R.SetSerializationOnly(true)
	a, b := env.Scalar("s0"), env.Scalar("s1")
	P, Q := env.Point("P0"), env.Point("P1")
	// kw.Share
	{
		v, _ := kw.NewShare(7, a, b)
		c12RoundTrip(env, "C12.kw.Share", v, func() (cborUnmarshaler, func() *kw.Share[sF]) {
			t := &kw.Share[sF]{}
			return t, func() *kw.Share[sF] { return t }
		}, func(x, y *kw.Share[sF]) bool { return x.Equal(y) })
		c12MustReject(env, "C12.kw.Share/ID 0 refused", kwShareDTO{0, []sF{a}}, &kw.Share[sF]{})
		c12MustReject(env, "C12.kw.Share/empty value vector refused", kwShareDTO{3, []sF{}}, &kw.Share[sF]{})
		c12MustReject(env, "C12.kw.Share/nil component refused", kwShareDTO{3, []sF{a, nil}}, &kw.Share[sF]{})
	}
	{
		v, _ := shamir.NewShare(5, a, nil)
		c12RoundTrip(env, "C12.shamir.Share", v, func() (cborUnmarshaler, func() *shamir.Share[sF]) {
			t := &shamir.Share[sF]{}
			return t, func() *shamir.Share[sF] { return t }
		}, func(x, y *shamir.Share[sF]) bool { return x.Equal(y) })
		c12MustReject(env, "C12.shamir.Share/ID 0 refused", shamirShareDTO{0, a}, &shamir.Share[sF]{})
		c12MustReject(env, "C12.shamir.Share/nil value refused", shamirShareDTO{2, nil}, &shamir.Share[sF]{})
	}
	{
		v, _ := feldman.NewLiftedShare[sG, sF](9, P, Q)
		c12RoundTrip(env, "C12.feldman.LiftedShare", v, func() (cborUnmarshaler, func() *feldman.LiftedShare[sG, sF]) {
			t := &feldman.LiftedShare[sG, sF]{}
			return t, func() *feldman.LiftedShare[sG, sF] { return t }
		}, func(x, y *feldman.LiftedShare[sG, sF]) bool { return x.Equal(y) })
		c12MustReject(env, "C12.feldman.LiftedShare/ID 0 refused", feldmanLiftedShareDTO{0, []sG{P}}, &feldman.LiftedShare[sG, sF]{})
		c12MustReject(env, "C12.feldman.LiftedShare/empty refused", feldmanLiftedShareDTO{4, nil}, &feldman.LiftedShare[sG, sF]{})
		c12MustReject(env, "C12.feldman.LiftedShare/nil component refused", feldmanLiftedShareDTO{4, []sG{nil}}, &feldman.LiftedShare[sG, sF]{})
	}
	{
		sa, _ := kw.NewShare(6, a, b)
		sb, _ := kw.NewShare(6, env.Scalar("b0"), env.Scalar("b1"))
		v, err := pedersen.NewShare(6, sa, sb)
		if env.Check("C12.pedersen.Share/harness", err == nil, fmt.Sprint(err)) {
			c12RoundTrip(env, "C12.pedersen.Share", v, func() (cborUnmarshaler, func() *pedersen.Share[sF]) {
				t := &pedersen.Share[sF]{}
				return t, func() *pedersen.Share[sF] { return t }
			}, func(x, y *pedersen.Share[sF]) bool { return x.Equal(y) })
			m0, _ := pedcom.NewMessage(a)
			m1, _ := pedcom.NewMessage(b)
			w0, _ := pedcom.NewWitness(a)
			c12MustReject(env, "C12.pedersen.Share/ID 0 refused", pedersenShareDTO{0, []*pedcom.Message[sF]{m0}, []*pedcom.Witness[sF]{w0}}, &pedersen.Share[sF]{})
			c12MustReject(env, "C12.pedersen.Share/secret and blinding of different length refused", pedersenShareDTO{6, []*pedcom.Message[sF]{m0, m1}, []*pedcom.Witness[sF]{w0}}, &pedersen.Share[sF]{})
			w1, _ := pedcom.NewWitness(b)
			c12MustReject(env, "C12.pedersen.Share/blinding longer than secret refused", pedersenShareDTO{6, []*pedcom.Message[sF]{m0}, []*pedcom.Witness[sF]{w0, w1}}, &pedersen.Share[sF]{})
			c12MustReject(env, "C12.pedersen.Share/blinding with a trailing nil refused", pedersenShareDTO{6, []*pedcom.Message[sF]{m0}, []*pedcom.Witness[sF]{w0, nil}}, &pedersen.Share[sF]{})
			c12MustReject(env, "C12.pedersen.Share/empty refused", pedersenShareDTO{6, nil, nil}, &pedersen.Share[sF]{})
			c12MustReject(env, "C12.pedersen.Share/nil component refused", pedersenShareDTO{6, []*pedcom.Message[sF]{nil}, []*pedcom.Witness[sF]{w0}}, &pedersen.Share[sF]{})
		}
	}
	{
		ring, err := polynomials.NewPolynomialRing(env.Field())
		var v *polynomials.Polynomial[sF]
		if err == nil {
			v, err = ring.New(a, b, env.Scalar("c2"))
		}
		if err == nil {
			c12RoundTrip(env, "C12.polynomials.Polynomial", v, func() (cborUnmarshaler, func() *polynomials.Polynomial[sF]) {
				t := &polynomials.Polynomial[sF]{}
				return t, func() *polynomials.Polynomial[sF] { return t }
			}, func(x, y *polynomials.Polynomial[sF]) bool { return x.Equal(y) })
		}
		c12MustReject(env, "C12.polynomials.Polynomial/no coefficients refused", polyDTOc{nil}, &polynomials.Polynomial[sF]{})
		c12MustReject(env, "C12.polynomials.Polynomial/nil coefficient refused", polyDTOc{[]sF{a, nil}}, &polynomials.Polynomial[sF]{})
	}
}

func c12Matrices(env *SymEnv) {
	env.R.SetSerializationOnly(true)
	var xs []sF
	var ps []sG
	for i := 0; i < 6; i++ {
		xs = append(xs, env.Scalar(fmt.Sprintf("m%d", i)))
		ps = append(ps, env.Point(fmt.Sprintf("M%d", i)))
	}
	for _, sh := range [][3]int{{2, 2, 3}, {2, 2, 5}, {0, 2, 0}, {2, 0, 0}, {-1, 2, 2}, {2, -3, 6}, {1 << 62, 4, 4}, {1 << 62, 1 << 62, 1}, {3, 2, 5}} {
		id := fmt.Sprintf("rows=%d cols=%d data=%d refused", sh[0], sh[1], sh[2])
		n := sh[2]
		if n > len(xs) {
			n = len(xs)
		}
		c12MustReject(env, "C12.mat.Matrix/"+id, matrixDTOc{sh[0], sh[1], xs[:n]}, &mat.Matrix[sF]{})
		c12MustReject(env, "C12.mat.ModuleValuedMatrix/"+id, mvMatrixDTOc{sh[0], sh[1], ps[:n]}, &mat.ModuleValuedMatrix[sG, sF]{})
	}
	c12MustReject(env, "C12.mat.Matrix/nil entry refused", matrixDTOc{1, 2, []sF{xs[0], nil}}, &mat.Matrix[sF]{})
	c12MustReject(env, "C12.mat.ModuleValuedMatrix/nil entry refused", mvMatrixDTOc{1, 2, []sG{ps[0], nil}}, &mat.ModuleValuedMatrix[sG, sF]{})
	for _, sh := range [][2]int{{2, 3}, {0, 0}, {-1, 1}, {1 << 32, 1}, {2, 5}} {
		n := sh[1]
		c12MustReject(env, fmt.Sprintf("C12.mat.SquareMatrix/size=%d data=%d refused", sh[0], sh[1]), squareDTOc{sh[0], xs[:n]}, &mat.SquareMatrix[sF]{})
	}
	for _, sh := range [][2]int{{1, 1}, {2, 3}, {3, 2}, {1, 6}} {
		var t mat.Matrix[sF]
		pfx := fmt.Sprintf("C12.mat.Matrix/%dx%d", sh[0], sh[1])
		if env.Check(pfx+" with consistent data accepted", c12Decode(env, pfx, matrixDTOc{sh[0], sh[1], xs[:sh[0]*sh[1]]}, &t), "refused") {
			r, c := t.Dimensions()
			ok := r == sh[0] && c == sh[1]
			var eqs []symalg.Pred
			for i := 0; ok && i < r; i++ {
				for j := 0; j < c; j++ {
					e, err := t.Get(i, j)
					if err != nil {
						ok = false
						break
					}
					eqs = append(eqs, env.EqF(e, xs[i*c+j]))
				}
			}
			env.Check(pfx+" decoded shape", ok, "wrong shape")
			env.Valid(pfx+" decoded entries are the encoded ones, row-major", symalg.And(eqs...))
			c12RoundTrip(env, pfx, &t, func() (cborUnmarshaler, func() *mat.Matrix[sF]) {
				u := &mat.Matrix[sF]{}
				return u, func() *mat.Matrix[sF] { return u }
			}, func(x, y *mat.Matrix[sF]) bool { return x.Equal(y) })
		}
	}
}

// c12KeyMaterial: MSP, verification vector, public material and shard of one policy.
func c12KeyMaterial(env *SymEnv, pol Policy) {
	env.AssumeDrawsNonZero()
	env.R.SetSerializationOnly(true)
	as, err := pol.Build()
	if err != nil {
		env.Reach("refused")
		return
	}
	f, group := env.Field(), env.R.Group()
	g := group.Generator()
	dealt, err := trusteddealer.Deal[sG, sF](group, as, env.Reader("dealer"))
	if err != nil {
		env.Reach("refused")
		return
	}
	ids := sortedIDs(pol.IDs)
	sh0, _ := dealt.Get(ids[0])
	m := sh0.MSP()
	D := int(m.D())
	rows, _ := m.Matrix().Dimensions()

	// MSP
	c12RoundTrip(env, "C12.msp.MSP", m, func() (cborUnmarshaler, func() *msp.MSP[sF]) {
		t := &msp.MSP[sF]{}
		return t, func() *msp.MSP[sF] { return t }
	}, func(x, y *msp.MSP[sF]) bool { return x.Equal(y) })
	r2h := map[int]sharing.ID{}
	for r, h := range m.RowsToHolders().Iter() {
		r2h[r] = h
	}
	mut := func(fn func(map[int]sharing.ID)) map[int]sharing.ID {
		c := map[int]sharing.ID{}
		for k, v := range r2h {
			c[k] = v
		}
		fn(c)
		return c
	}
	c12MustReject(env, "C12.msp.MSP/row without holder refused", mspDTOc{m.Matrix(), mut(func(c map[int]sharing.ID) { delete(c, rows-1) })}, &msp.MSP[sF]{})
	c12MustReject(env, "C12.msp.MSP/label for a row that does not exist refused", mspDTOc{m.Matrix(), mut(func(c map[int]sharing.ID) { c[rows] = ids[0] })}, &msp.MSP[sF]{})
	c12MustReject(env, "C12.msp.MSP/negative row index refused", mspDTOc{m.Matrix(), mut(func(c map[int]sharing.ID) { c[-1] = ids[0] })}, &msp.MSP[sF]{})
	c12MustReject(env, "C12.msp.MSP/holder 0 refused", mspDTOc{m.Matrix(), mut(func(c map[int]sharing.ID) { c[0] = 0 })}, &msp.MSP[sF]{})
	c12MustReject(env, "C12.msp.MSP/nil matrix refused", mspDTOc{nil, r2h}, &msp.MSP[sF]{})

	// verification vector
	vv := sh0.VerificationVector()
	c12RoundTrip(env, "C12.feldman.VerificationVector", vv, func() (cborUnmarshaler, func() *feldman.VerificationVector[sG, sF]) {
		t := &feldman.VerificationVector[sG, sF]{}
		return t, func() *feldman.VerificationVector[sG, sF] { return t }
	}, func(x, y *feldman.VerificationVector[sG, sF]) bool { return x.Equal(y) })
	pts := make([]sG, 0, D+1)
	for i := 0; i < D; i++ {
		p, _ := vv.Value().Get(i, 0)
		pts = append(pts, p)
	}
	if D >= 2 && D%2 == 0 {
		mod, _ := mat.NewModuleValuedMatrixModule[sG, sF](uint(D/2), 2, group)
		if wide, err := mod.New(splitRows(pts, 2)); err == nil {
			c12MustReject(env, "C12.feldman.VerificationVector/non-column matrix refused", vvDTOc{wide}, &feldman.VerificationVector[sG, sF]{})
		}
	}
	c12MustReject(env, "C12.feldman.VerificationVector/nil matrix refused", vvDTOc{nil}, &feldman.VerificationVector[sG, sF]{})

	// public material: vector of the wrong length
	pm := &sh0.BasePublicMaterial
	c12RoundTrip(env, "C12.mpc.BasePublicMaterial", pm, func() (cborUnmarshaler, func() *mpc.BasePublicMaterial[sG, sF]) {
		t := &mpc.BasePublicMaterial[sG, sF]{}
		return t, func() *mpc.BasePublicMaterial[sG, sF] { return t }
	}, func(x, y *mpc.BasePublicMaterial[sG, sF]) bool {
		// Equal looks at the MSP and the verification vector only: the derived data users read
		// (joint public key, per-party public key shares) is compared as well
		if !x.Equal(y) || !x.PublicKeyValue().Equal(y.PublicKeyValue()) {
			return false
		}
		xs, ys := x.PublicKeyShares(), y.PublicKeyShares()
		if xs == nil || ys == nil || xs.Size() != ys.Size() {
			return false
		}
		for id, a := range xs.Iter() {
			b, ok := ys.Get(id)
			if !ok || !a.Equal(b) {
				return false
			}
		}
		return true
	})
	for _, n := range []int{D - 1, D + 1} {
		if n < 1 {
			continue
		}
		q := append([]sG(nil), pts...)
		if n > D {
			q = append(q, env.Point("extra"))
		} else {
			q = q[:n]
		}
		col, _ := columnOfPoints[sG, sF](group, q)
		bad, err := feldman.NewVerificationVector(col, nil)
		if err == nil {
			c12MustReject(env, fmt.Sprintf("C12.mpc.BasePublicMaterial/verification vector of length %d for MSP dimension %d refused", n, D), bpmDTOc{m, bad}, &mpc.BasePublicMaterial[sG, sF]{})
		}
	}
	c12MustReject(env, "C12.mpc.BasePublicMaterial/nil MSP refused", bpmDTOc{nil, vv}, &mpc.BasePublicMaterial[sG, sF]{})

	// shard: ARBITRARY share values against genuine public material
	for _, id := range ids {
		real, _ := dealt.Get(id)
		n := len(real.Share().Value())
		pfx := fmt.Sprintf("C12.mpc.BaseShard/holder%d", id)
		c12RoundTrip(env, pfx, real, func() (cborUnmarshaler, func() *mpc.BaseShard[sG, sF]) {
			t := &mpc.BaseShard[sG, sF]{}
			return t, func() *mpc.BaseShard[sG, sF] { return t }
		}, func(x, y *mpc.BaseShard[sG, sF]) bool { return x.Equal(y) })
		vals := make([]sF, n)
		for k := range vals {
			vals[k] = env.Scalar(fmt.Sprintf("arb%d_%d", id, k))
		}
		arb, _ := kw.NewShare(id, vals...)
		var t mpc.BaseShard[sG, sF]
		acc := c12Decode(env, pfx+"/arbitrary share", shardDTOc{arb, pm}, &t)
		ps, _ := pm.PublicKeyShares().Get(id)
		var eqs []symalg.Pred
		for k := range vals {
			eqs = append(eqs, env.EqG(g.ScalarOp(vals[k]), ps.Value()[k]))
		}
		c12Iff(env, pfx+"/arbitrary share", acc, symalg.And(eqs...))
		// one component shifted by δ≠0: refused for every δ
		delta := env.Scalar("delta")
		env.Assume(symalg.Not(env.EqF(delta, f.Zero())))
		for k := 0; k < n; k++ {
			sv := append([]sF(nil), real.Share().Value()...)
			sv[k] = sv[k].Add(delta)
			bs, _ := kw.NewShare(id, sv...)
			c12MustReject(env, fmt.Sprintf("%s/component %d shifted by δ≠0 refused", pfx, k), shardDTOc{bs, pm}, &mpc.BaseShard[sG, sF]{})
		}
		// wrong shapes: must be an error, never a panic
		longer, _ := kw.NewShare(id, append(append([]sF(nil), real.Share().Value()...), f.Zero())...)
		c12MustReject(env, pfx+"/share with an extra component refused", shardDTOc{longer, pm}, &mpc.BaseShard[sG, sF]{})
		if n >= 2 {
			shorter, _ := kw.NewShare(id, real.Share().Value()[:n-1]...)
			c12MustReject(env, pfx+"/share with a missing component refused", shardDTOc{shorter, pm}, &mpc.BaseShard[sG, sF]{})
		}
		stranger, _ := kw.NewShare(9999, real.Share().Value()...)
		c12MustReject(env, pfx+"/share of a non-shareholder refused", shardDTOc{stranger, pm}, &mpc.BaseShard[sG, sF]{})
		c12MustReject(env, pfx+"/nil share refused", shardDTOc{nil, pm}, &mpc.BaseShard[sG, sF]{})
		// share of ANOTHER holder under this holder's ID
		for _, other := range ids {
			if other == id {
				continue
			}
			o, _ := dealt.Get(other)
			if len(o.Share().Value()) != n {
				continue
			}
			swapped, _ := kw.NewShare(id, o.Share().Value()...)
			var t2 mpc.BaseShard[sG, sF]
			acc := c12Decode(env, pfx+"/another holder's values", shardDTOc{swapped, pm}, &t2)
			var e2 []symalg.Pred
			for k := range o.Share().Value() {
				e2 = append(e2, env.EqG(g.ScalarOp(o.Share().Value()[k]), ps.Value()[k]))
			}
			c12Iff(env, pfx+"/another holder's values", acc, symalg.And(e2...))
			break
		}
	}
}

func splitRows[T any](xs []T, cols int) [][]T {
	var out [][]T
	for i := 0; i+cols <= len(xs); i += cols {
		out = append(out, xs[i:i+cols])
	}
	return out
}

// C12Cases builds the corpus.
func C12Cases(tier string, seed int64) []Case {
	cases := []Case{
		{ID: "C12/keys", Desc: "commitment / encryption / signature keys with arbitrary symbolic generators and scalars", Sym: c12Keys,
			MustReach: []string{"C12.pedersencom.CommitmentKey/accepting path", "C12.pedersencom.CommitmentKey/rejecting path", "C12.elgamal.SecretKey/accepting path", "C12.elgamal.SecretKey/rejecting path"}},
		{ID: "C12/shares", Desc: "share types and polynomials: round trip and structural refusals", Sym: c12Shares, MustReach: []string{"C12.kw.Share/round-trip", "C12.pedersen.Share/round-trip"}},
		{ID: "C12/matrices", Desc: "matrix containers: shapes vs data length", Sym: c12Matrices},
	}
	pols := []Policy{
		thresholdPolicy(2, idPools[1][:3]),
		cnfPolicy([]int{0b0011, 0b1100, 0b0101}, []sharing.ID{1, 2, 3, 4}),
		gatePolicy(&gate{1, []any{&gate{2, []any{0, 1}}, &gate{2, []any{0, 2}}}}, idPools[0][:3]),
	}
	if tier == "thorough" {
		// (a 3-of-4 threshold structure was in this list: in the key-material case one branch on a
		// two-variable linear form under a long path condition stays `unknown` in all three solvers
		// after ~15 minutes, so the thorough tier keeps threshold 2 — also over the 64-bit identifier
		// pool — and states the degree-2 case as outside its bound)
		pols = append(pols, thresholdPolicy(2, idPools[2][:3]), unanimityPolicy(idPools[0][:3]), hierarchicalPolicy([][2]int{{1, 1}, {2, 2}}, sortedPool(idPools[1], 3)),
			cnfPolicy([]int{0b001, 0b110}, idPools[0][:3]))
	}
	for _, p := range pols {
		pol := p
		cases = append(cases, Case{ID: "C12/key-material/" + pol.Name, Desc: map[string]any{"policy": pol.Name, "what": "MSP, verification vector, public material, shard with arbitrary symbolic share values"},
			Sym: func(e *SymEnv) { c12KeyMaterial(e, pol) }, MustReach: []string{"C12.mpc.BasePublicMaterial/round-trip"}})
	}
	return cases
}
