package e2

import (
	"crypto/sha256"
	"encoding/binary"
	"fmt"

	"github.com/bronlabs/bron-crypto/pkg/mpc/session"
	"github.com/bronlabs/bron-crypto/pkg/mpc/sharing"
)

// makeContexts builds one real session.Context per quorum member from concrete seeds: a common seed
// and symmetric pairwise seeds derived from (tag, min id, max id). This is exactly the state that a
// completed session setup leaves behind (C10); the contexts are real library objects.
func makeContexts(tag string, quorum []sharing.ID) (map[sharing.ID]*session.Context, error) {
	common := sha256.Sum256([]byte("common:" + tag))
	out := map[sharing.ID]*session.Context{}
	for _, id := range quorum {
		pair := map[sharing.ID][]byte{}
		for _, other := range quorum {
			if other == id {
				continue
			}
			lo, hi := min(id, other), max(id, other)
			var b [16]byte
			binary.BigEndian.PutUint64(b[:8], uint64(lo))
			binary.BigEndian.PutUint64(b[8:], uint64(hi))
			h := sha256.Sum256(append([]byte("pair:"+tag), b[:]...))
			pair[other] = h[:]
		}
		ctx, err := session.NewContext(id, idSet(quorum...), common[:], pair)
		if err != nil {
			return nil, fmt.Errorf("NewContext(%d): %w", id, err)
		}
		out[id] = ctx
	}
	return out, nil
}
