package e2

import (
	"crypto/sha256"
	"crypto/sha512"
	"fmt"
	"hash"

	"github.com/bronlabs/bron-crypto/pkg/base/algebra"
	"github.com/bronlabs/bron-crypto/pkg/base/curves/k256"
	"github.com/bronlabs/bron-crypto/pkg/signatures/ecdsa"
	"github.com/bronlabs/bron-crypto/pkg/signatures/schnorrlike"
	vanilla "github.com/bronlabs/bron-crypto/pkg/signatures/schnorrlike/schnorr"

	"verif/engine/symalg"
)

type schnorrCfg struct {
	Neg, LE bool
	Hash    string
	Msg     string
}

func (c schnorrCfg) hash() func() hash.Hash {
	if c.Hash == "sha512" {
		return sha512.New
	}
	return sha256.New
}

// c15Schnorr: configurable (vanilla) Schnorr, private key and nonce symbolic.
func c15Schnorr[E algebra.PrimeGroupElement[E, S], S algebra.PrimeFieldElement[S]](env Env[E, S], cfg schnorrCfg) {
	env.AssumeDrawsNonZero()
	group := env.Group()
	f := env.Field()
	g := group.Generator()
	scheme, err := vanilla.NewScheme[E, S](group, cfg.hash(), cfg.Neg, cfg.LE, nil, env.Reader("signer"))
	if !env.Check("C15.a/scheme-ok", err == nil, fmt.Sprint(err)) {
		return
	}
	x := env.Scalar("sk")
	env.Assume(symalg.Not(env.EqF(x, f.Zero())))
	pk, err := vanilla.NewPublicKey[E, S](g.ScalarOp(x))
	if !env.Check("C15.a/pk-ok", err == nil, fmt.Sprint(err)) {
		return
	}
	sk, err := vanilla.NewPrivateKey[E, S](x, pk)
	if !env.Check("C15.a/sk-ok", err == nil, fmt.Sprint(err)) {
		return
	}
	signer, err := scheme.Signer(sk)
	if !env.Check("C15.a/signer-ok", err == nil, fmt.Sprint(err)) {
		return
	}
	verifier, err := scheme.Verifier()
	if !env.Check("C15.a/verifier-ok", err == nil, fmt.Sprint(err)) {
		return
	}
	msg := []byte(cfg.Msg)
	sig, err := signer.Sign(msg)
	if err != nil {
		// the signer's self-check refuses a zero response (a probability-1/q event): show that this
		// is the only way signing can fail
		k := env.Drawn("signer", 0)
		R := g.ScalarOp(k)
		e, cerr := scheme.Variant().ComputeChallenge(R, pk.Value(), msg)
		if env.Check("C15.a/challenge-ok", cerr == nil, fmt.Sprint(cerr)) {
			ex := e.Mul(x)
			if cfg.Neg {
				ex = ex.Neg()
			}
			env.Valid("C15.a/Sign fails ⇒ response k±e·x = 0", env.EqF(k.Add(ex), f.Zero()))
		}
		return
	}
	env.Reach("signed")
	// independent verification equation, recomputed by the harness from the outputs
	e, err := scheme.Variant().ComputeChallenge(sig.R, pk.Value(), msg)
	if env.Check("C15.a/challenge-ok", err == nil, fmt.Sprint(err)) {
		rhs := pk.Value().ScalarOp(e)
		if cfg.Neg {
			rhs = rhs.OpInv()
		}
		env.Valid("C15.a/s·G = R ± e·P", env.EqG(g.ScalarOp(sig.S), sig.R.Op(rhs)))
		env.Valid("C15.a/stored challenge = recomputed challenge", env.EqF(sig.E, e))
	}
	env.Check("C15.a/verify accepts the signature", verifier.Verify(sig, pk, msg) == nil, "honest signature rejected")

	// response shifted by δ ≠ 0 is rejected for every δ
	delta := env.Scalar("delta")
	env.Assume(symalg.Not(env.EqF(delta, f.Zero())))
	bad, err := schnorrlike.NewSignature[E, S](sig.E, sig.R, sig.S.Add(delta))
	if err == nil {
		env.Check("C15.a/response+δ rejected", verifier.Verify(bad, pk, msg) != nil, "signature with response shifted by δ≠0 accepted")
	}
	// another message (different challenge bytes): rejected for every key (x ≠ 0)
	other := append([]byte(cfg.Msg), 0x01)
	verr := verifier.Verify(sig, pk, other)
	if verr == nil {
		// acceptance is only possible if the two challenges coincide (hash collision)
		e2, _ := scheme.Variant().ComputeChallenge(sig.R, pk.Value(), other)
		env.Valid("C15.a/other message accepted ⇒ equal challenges", env.EqF(e, e2))
	} else {
		env.Reach("other-message-rejected")
	}
	// signature under a different key x' = x + δ: the verifier's equation changes (class B: the
	// challenge changes too; acceptance pins δ to one value)
	pk2, err := vanilla.NewPublicKey[E, S](g.ScalarOp(x.Add(delta)))
	if err == nil {
		if verifier.Verify(sig, pk2, msg) == nil {
			env.Reach("class-B: other key accepted on a measure-zero path")
		} else {
			env.Reach("other-key-rejected")
		}
	}
}

// c15ECDSASignature: ecdsa.NewSignature accepts exactly r,s ≠ 0 and v ∈ 0..3 (arbitrary r,s).
func c15ECDSASignature[E algebra.PrimeGroupElement[E, S], S algebra.PrimeFieldElement[S]](env Env[E, S], v *int) {
	f := env.Field()
	r, s := env.Scalar("r"), env.Scalar("s")
	sig, err := ecdsa.NewSignature(r, s, v)
	okV := v == nil || (*v >= 0 && *v <= 3)
	nz := symalg.And(symalg.Not(env.EqF(r, f.Zero())), symalg.Not(env.EqF(s, f.Zero())))
	if err == nil {
		env.Reach("accepted")
		env.Check("C15.b/accepted ⇒ v in range", okV, "recovery id out of range accepted")
		env.Valid("C15.b/accepted ⇒ r,s ≠ 0", nz)
		env.Valid("C15.b/fields preserved", symalg.And(env.EqF(sig.R(), r), env.EqF(sig.S(), s)))
	} else {
		env.Reach("rejected")
		if okV {
			env.Valid("C15.b/rejected ⇒ r=0 ∨ s=0", symalg.Not(nz))
		}
	}
}

// C15Cases builds the case list.
func C15Cases(tier string, seed int64) []Case {
	var cases []Case
	msgs := []string{"", "hello", "a longer message with several words \x00\xff"}
	for _, neg := range []bool{false, true} {
		for _, le := range []bool{false, true} {
			for _, h := range []string{"sha256", "sha512"} {
				for mi, m := range msgs {
					if tier != "thorough" && mi > 0 && (le || h == "sha512") {
						continue
					}
					cfg := schnorrCfg{Neg: neg, LE: le, Hash: h, Msg: m}
					cs := both(fmt.Sprintf("C15/schnorr/neg=%v/le=%v/%s/msg=%q", neg, le, h, m), cfg,
						func(e Env[*symalg.G, *symalg.F]) { c15Schnorr(e, cfg) },
						func(e Env[*k256.Point, *k256.Scalar]) { c15Schnorr(e, cfg) })
					cs.MustReach = []string{"signed"}
					cases = append(cases, cs)
				}
			}
		}
	}
	for _, vv := range []int{-2, -1, 0, 1, 3, 4, 7} {
		var v *int
		if vv != -2 {
			x := vv
			v = &x
		}
		cases = append(cases, both(fmt.Sprintf("C15/ecdsa-signature/v=%d", vv), map[string]any{"v": vv, "r,s": "arbitrary"},
			func(e Env[*symalg.G, *symalg.F]) { c15ECDSASignature(e, v) },
			func(e Env[*k256.Point, *k256.Scalar]) { c15ECDSASignature(e, v) }))
	}
	for _, c := range C15BLSCases(tier) {
		c.MustReach = append(c.MustReach, "bls-done")
		cases = append(cases, c)
	}
	return cases
}
