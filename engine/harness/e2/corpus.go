package e2

import (
	"fmt"
	"math/rand"
	"sort"
	"strings"

	ds "github.com/bronlabs/bron-crypto/pkg/base/datastructures"
	"github.com/bronlabs/bron-crypto/pkg/base/datastructures/hashset"
	"github.com/bronlabs/bron-crypto/pkg/mpc/sharing"
	"github.com/bronlabs/bron-crypto/pkg/mpc/sharing/accessstructures"
	"github.com/bronlabs/bron-crypto/pkg/mpc/sharing/accessstructures/boolexpr"
	"github.com/bronlabs/bron-crypto/pkg/mpc/sharing/accessstructures/cnf"
	"github.com/bronlabs/bron-crypto/pkg/mpc/sharing/accessstructures/hierarchical"
	"github.com/bronlabs/bron-crypto/pkg/mpc/sharing/accessstructures/threshold"
	"github.com/bronlabs/bron-crypto/pkg/mpc/sharing/accessstructures/unanimity"
)

// Policy is one access structure of the corpus, rebuilt on demand (constructors are cheap and
// the objects are not shared between goroutines).
type Policy struct {
	Name   string
	Family string
	IDs    []sharing.ID
	Build  func() (accessstructures.Monotone, error)
	// BuildVariant builds an EQUAL policy from a differently ordered description (CNF: the maximal
	// unqualified sets listed in rotated order; others: same as Build). Parties of a protocol each
	// construct their own access-structure object, as separate processes would.
	BuildVariant func(k int) (accessstructures.Monotone, error)
	// Spec, when set, is the harness-side reference semantics of the DESCRIPTION the policy was
	// built from (independent of the library's normalisation of it): is this set qualified?
	Spec func(set []sharing.ID) bool
}

// Variant returns the k-th equivalent construction of the policy.
func (p Policy) Variant(k int) (accessstructures.Monotone, error) {
	if p.BuildVariant != nil {
		return p.BuildVariant(k)
	}
	return p.Build()
}

// ID pools: dense, sparse-unsorted, large.
var idPools = [][]sharing.ID{
	{1, 2, 3, 4, 5, 6},
	{7, 2, 77, 5, 3, 1},
	{1<<32 + 1, 3, 1<<63 + 5, 1 << 40, 9, 1<<62 + 1},
}

func idSet(ids ...sharing.ID) ds.Set[sharing.ID] { return hashset.NewComparable(ids...).Freeze() }

func idsStr(ids []sharing.ID) string {
	s := make([]string, len(ids))
	for i, id := range ids {
		s[i] = fmt.Sprint(id)
	}
	return "{" + strings.Join(s, ",") + "}"
}

func thresholdPolicy(t int, ids []sharing.ID) Policy {
	ids = append([]sharing.ID(nil), ids...)
	return Policy{Name: fmt.Sprintf("threshold(%d,%s)", t, idsStr(ids)), Family: "threshold", IDs: ids,
		Build: func() (accessstructures.Monotone, error) {
			return threshold.NewThresholdAccessStructure(uint(t), idSet(ids...))
		},
		Spec: func(set []sharing.ID) bool { return countMembers(set, ids) >= t }}
}

func unanimityPolicy(ids []sharing.ID) Policy {
	ids = append([]sharing.ID(nil), ids...)
	return Policy{Name: fmt.Sprintf("unanimity(%s)", idsStr(ids)), Family: "unanimity", IDs: ids,
		Build: func() (accessstructures.Monotone, error) {
			return unanimity.NewUnanimityAccessStructure(idSet(ids...))
		},
		Spec: func(set []sharing.ID) bool { return countMembers(set, ids) == len(ids) }}
}

// cnfPolicy takes maximal unqualified sets as bitmasks over ids.
func cnfPolicy(masks []int, ids []sharing.ID) Policy {
	ids = append([]sharing.ID(nil), ids...)
	var parts []string
	for _, m := range masks {
		parts = append(parts, idsStr(maskIDs(m, ids)))
	}
	build := func(k int) (accessstructures.Monotone, error) {
		var sets []ds.Set[sharing.ID]
		for i := range masks {
			m := masks[(i+k)%len(masks)]
			members := maskIDs(m, ids)
			if k%2 == 1 { // also reverse the member order inside each set
				for a, b := 0, len(members)-1; a < b; a, b = a+1, b-1 {
					members[a], members[b] = members[b], members[a]
				}
			}
			sets = append(sets, idSet(members...))
		}
		return cnf.NewCNFAccessStructure(sets...)
	}
	return Policy{Name: "cnf(unq=" + strings.Join(parts, "") + " over " + idsStr(ids) + ")", Family: "cnf", IDs: ids,
		Build:        func() (accessstructures.Monotone, error) { return build(0) },
		BuildVariant: build,
		// qualified ⇔ contained in none of the listed unqualified sets
		Spec: func(set []sharing.ID) bool {
			for _, m := range masks {
				if countMembers(set, maskIDs(m, ids)) == len(dedupIDs(set)) {
					return false
				}
			}
			return true
		}}
}

// countMembers counts the distinct elements of set that belong to universe.
func countMembers(set, universe []sharing.ID) int {
	n := 0
	for _, x := range dedupIDs(set) {
		for _, u := range universe {
			if x == u {
				n++
				break
			}
		}
	}
	return n
}

func dedupIDs(set []sharing.ID) []sharing.ID {
	seen := map[sharing.ID]bool{}
	var out []sharing.ID
	for _, x := range set {
		if !seen[x] {
			seen[x] = true
			out = append(out, x)
		}
	}
	return out
}

func maskIDs(m int, ids []sharing.ID) []sharing.ID {
	var out []sharing.ID
	for i, id := range ids {
		if m>>i&1 == 1 {
			out = append(out, id)
		}
	}
	return out
}

// hierarchicalPolicy: levels given as (cumulative threshold, number of parties); ids must be
// increasing from level to level (the library checks this and refuses otherwise).
func hierarchicalPolicy(levels [][2]int, ids []sharing.ID) Policy {
	ids = append([]sharing.ID(nil), ids...)
	var desc []string
	off := 0
	for _, l := range levels {
		desc = append(desc, fmt.Sprintf("%d:%s", l[0], idsStr(ids[off:off+l[1]])))
		off += l[1]
	}
	used := ids[:off]
	return Policy{Name: "hierarchical(" + strings.Join(desc, ";") + ")", Family: "hierarchical", IDs: used,
		Build: func() (accessstructures.Monotone, error) {
			var ls []*hierarchical.ThresholdLevel
			o := 0
			for _, l := range levels {
				ls = append(ls, hierarchical.WithLevel(l[0], ids[o:o+l[1]]...))
				o += l[1]
			}
			return hierarchical.NewHierarchicalConjunctiveThresholdAccessStructure(ls...)
		}}
}

// gate trees: a tiny expression language  T<k>(...) with leaves as indices into ids.
type gate struct {
	k    int
	kids []any // *gate or int (leaf index)
}

func (g *gate) build(ids []sharing.ID) *boolexpr.Node {
	var ch []*boolexpr.Node
	for _, k := range g.kids {
		switch v := k.(type) {
		case int:
			ch = append(ch, boolexpr.ID(ids[v]))
		case *gate:
			ch = append(ch, v.build(ids))
		}
	}
	return boolexpr.Threshold(g.k, ch...)
}

func (g *gate) str(ids []sharing.ID) string {
	var ps []string
	for _, k := range g.kids {
		switch v := k.(type) {
		case int:
			ps = append(ps, fmt.Sprint(ids[v]))
		case *gate:
			ps = append(ps, v.str(ids))
		}
	}
	return fmt.Sprintf("T%d(%s)", g.k, strings.Join(ps, ","))
}

func (g *gate) leaves(into map[int]bool) {
	for _, k := range g.kids {
		switch v := k.(type) {
		case int:
			into[v] = true
		case *gate:
			v.leaves(into)
		}
	}
}

func gatePolicy(g *gate, ids []sharing.ID) Policy {
	ids = append([]sharing.ID(nil), ids...)
	lv := map[int]bool{}
	g.leaves(lv)
	var used []sharing.ID
	for i := range ids {
		if lv[i] {
			used = append(used, ids[i])
		}
	}
	return Policy{Name: "boolexpr(" + g.str(ids) + ")", Family: "boolexpr", IDs: used,
		Build: func() (accessstructures.Monotone, error) {
			return boolexpr.NewThresholdGateAccessStructure(g.build(ids))
		}}
}

// antichains enumerates all non-empty antichains of proper non-empty subsets of {0..n-1} whose
// union covers all n elements (so the policy has exactly n shareholders), as lists of bitmasks.
func antichains(n int) [][]int {
	full := 1<<n - 1
	var subsets []int
	for m := 1; m < full; m++ {
		subsets = append(subsets, m)
	}
	var out [][]int
	var rec func(start int, cur []int)
	rec = func(start int, cur []int) {
		if len(cur) > 0 {
			u := 0
			for _, m := range cur {
				u |= m
			}
			if u == full {
				out = append(out, append([]int(nil), cur...))
			}
		}
		for i := start; i < len(subsets); i++ {
			ok := true
			for _, m := range cur {
				if m&subsets[i] == m || m&subsets[i] == subsets[i] {
					ok = false
					break
				}
			}
			if ok {
				rec(i+1, append(cur, subsets[i]))
			}
		}
	}
	rec(0, nil)
	return out
}

func sortedPool(p []sharing.ID, n int) []sharing.ID {
	c := append([]sharing.ID(nil), p[:n]...)
	sort.Slice(c, func(i, j int) bool { return c[i] < c[j] })
	return c
}

// PolicyCorpus builds the corpus for a tier. maxN bounds the number of shareholders enumerated
// exhaustively; quick uses a subsample of the CNF antichains.
func PolicyCorpus(tier string, seed int64) []Policy {
	rng := rand.New(rand.NewSource(seed + 11))
	maxN := 4
	if tier == "thorough" {
		maxN = 5
	}
	var ps []Policy
	for pi, pool := range idPools {
		for n := 2; n <= maxN; n++ {
			if pi > 0 && n > 4 {
				continue
			}
			ids := pool[:n]
			for t := 2; t <= n; t++ {
				ps = append(ps, thresholdPolicy(t, ids))
			}
			ps = append(ps, unanimityPolicy(ids))
		}
	}
	// the largest identifier a CNF supports (64) in an antichain where it decides maximality
	ps = append(ps, cnfPolicy([]int{0b0011, 0b1001, 0b1100}, []sharing.ID{1, 2, 3, 64}))
	// CNF: all antichains on 2..3 parties, sample on 4 (all in thorough), sample on 5 (thorough)
	for n := 2; n <= maxN; n++ {
		acs := antichains(n)
		limit := len(acs)
		if n == 4 && tier != "thorough" {
			limit = 24
		}
		if n == 5 {
			limit = 60
		}
		if limit < len(acs) {
			rng.Shuffle(len(acs), func(i, j int) { acs[i], acs[j] = acs[j], acs[i] })
			acs = acs[:limit]
		}
		for i, ac := range acs {
			ps = append(ps, cnfPolicy(ac, idPools[i%len(idPools)][:n]))
		}
	}
	// hierarchical level layouts (ids increasing across levels): (threshold, parties) per level
	layouts := [][][2]int{
		{{1, 1}, {2, 2}},
		{{1, 2}, {2, 1}},
		{{1, 1}, {3, 3}},
		{{2, 2}, {3, 2}},
		{{1, 2}, {3, 2}},
		{{1, 1}, {2, 1}, {3, 2}},
		{{2, 3}, {3, 1}},
		{{1, 1}, {2, 3}},
	}
	if tier == "thorough" {
		layouts = append(layouts, [][2]int{{2, 2}, {4, 3}}, [][2]int{{1, 1}, {2, 2}, {4, 2}}, [][2]int{{1, 2}, {2, 1}, {3, 2}}, [][2]int{{3, 3}, {4, 2}})
	}
	for i, l := range layouts {
		n := 0
		for _, lv := range l {
			n += lv[1]
		}
		pool := idPools[i%len(idPools)]
		ps = append(ps, hierarchicalPolicy(l, sortedPool(pool, n)))
	}
	// gate trees of depth ≤ 2 with at most one repeated leaf (non-ideal MSP: a holder owns 2 rows)
	gates := []*gate{
		{2, []any{0, 1, 2}},
		{1, []any{&gate{2, []any{0, 1}}, &gate{2, []any{2, 3}}}},
		{2, []any{&gate{1, []any{0, 1}}, &gate{1, []any{2, 3}}}},
		{1, []any{&gate{2, []any{0, 1}}, &gate{2, []any{0, 2}}}},       // leaf 0 repeated
		{2, []any{0, &gate{1, []any{1, 2}}, &gate{2, []any{1, 3}}}},    // leaf 1 repeated
		{2, []any{&gate{2, []any{0, 1}}, &gate{1, []any{2, 0}}, 3}},    // leaf 0 repeated
		{1, []any{&gate{3, []any{0, 1, 2}}, &gate{2, []any{2, 3}}}},    // leaf 2 repeated
		{2, []any{&gate{2, []any{0, 1, 2}}, &gate{2, []any{1, 2, 3}}}}, // two repeated
	}
	for i, g := range gates {
		ps = append(ps, gatePolicy(g, idPools[i%len(idPools)][:4]))
	}
	return ps
}

// subsetsOf returns all non-empty subsets of ids.
func subsetsOf(ids []sharing.ID) [][]sharing.ID {
	var out [][]sharing.ID
	for m := 1; m < 1<<len(ids); m++ {
		out = append(out, maskIDs(m, ids))
	}
	return out
}

// minimalQualified returns the minimal qualified sets of a policy (by brute force).
func minimalQualified(as accessstructures.Monotone, ids []sharing.ID) [][]sharing.ID {
	var qual []int
	for m := 1; m < 1<<len(ids); m++ {
		if as.IsQualified(maskIDs(m, ids)...) {
			qual = append(qual, m)
		}
	}
	var out [][]sharing.ID
	for _, m := range qual {
		minimal := true
		for _, o := range qual {
			if o != m && o&m == o {
				minimal = false
				break
			}
		}
		if minimal {
			out = append(out, maskIDs(m, ids))
		}
	}
	return out
}
