package e2

import (
	"fmt"

	"github.com/bronlabs/bron-crypto/pkg/base/algebra"
	"github.com/bronlabs/bron-crypto/pkg/base/curves/k256"
	"github.com/bronlabs/bron-crypto/pkg/base/nt/num"
	"github.com/bronlabs/bron-crypto/pkg/mpc/sharing"
	"github.com/bronlabs/bron-crypto/pkg/mpc/sharing/accessstructures/hierarchical"
	"github.com/bronlabs/bron-crypto/pkg/mpc/sharing/accessstructures/threshold"
	"github.com/bronlabs/bron-crypto/pkg/mpc/sharing/accessstructures/unanimity"
	"github.com/bronlabs/bron-crypto/pkg/mpc/sharing/scheme/additive"
	"github.com/bronlabs/bron-crypto/pkg/mpc/sharing/scheme/isn"
	"github.com/bronlabs/bron-crypto/pkg/mpc/sharing/scheme/shamir"
	"github.com/bronlabs/bron-crypto/pkg/mpc/sharing/scheme/tassa"

	"verif/engine/symalg"
)

// c02Shamir: Shamir over every threshold policy: reconstruction from every qualified subset,
// refusal of unqualified ones, additive conversion, linearity.
func c02Shamir[E algebra.PrimeGroupElement[E, S], S algebra.PrimeFieldElement[S]](env Env[E, S], pol Policy) {
	as, err := pol.Build()
	th, ok := as.(*threshold.Threshold)
	if err != nil || !ok {
		env.Reach("refused")
		return
	}
	f := env.Field()
	// the dealer polynomial's coefficients are assumed non-zero (otherwise every Degree() call forks)
	env.AssumeDrawsNonZero()
	scheme, err := shamir.NewScheme(f, th)
	if err != nil {
		env.Reach("refused")
		return
	}
	env.Reach("dealt")
	s1, s2 := env.Scalar("secret"), env.Scalar("secret2")
	o1, err := scheme.Deal(shamir.NewSecret(s1), env.Reader("dealer"))
	if !env.Check("C02.shamir/deal-ok", err == nil, fmt.Sprint(err)) {
		return
	}
	o2, err := scheme.Deal(shamir.NewSecret(s2), env.Reader("dealer2"))
	if !env.Check("C02.shamir/deal-ok", err == nil, fmt.Sprint(err)) {
		return
	}
	for _, A := range subsetsOf(pol.IDs) {
		var sh, sh2 []*shamir.Share[S]
		for _, id := range A {
			a, _ := o1.Shares().Get(id)
			b, _ := o2.Shares().Get(id)
			sh, sh2 = append(sh, a), append(sh2, b)
		}
		q := as.IsQualified(A...)
		env.Check("C02.shamir/CanReconstruct ⇔ qualified", scheme.CanReconstruct(A...) == q, setName(A))
		rec, err := scheme.Reconstruct(sh...)
		if !q {
			env.Check("C02.shamir/unqualified refused", err != nil, "unqualified set "+setName(A)+" reconstructed")
			continue
		}
		if env.Check("C02.shamir/reconstruct-ok", err == nil, fmt.Sprint(err)) {
			env.Valid("C02.shamir/reconstruct=secret", env.EqF(rec.Value(), s1))
		}
		quorum, _ := unanimity.NewUnanimityAccessStructure(idSet(A...))
		sum := f.Zero()
		okAll := true
		for _, s := range sh {
			a, err := s.ToAdditive(quorum)
			if !env.Check("C02.shamir/additive-ok", err == nil, fmt.Sprint(err)) {
				okAll = false
				break
			}
			sum = sum.Add(a.Value())
		}
		if okAll {
			env.Valid("C02.shamir/additive-sum=secret", env.EqF(sum, s1))
		}
		var added, scaled []*shamir.Share[S]
		for i := range sh {
			added = append(added, sh[i].Add(sh2[i]))
			scaled = append(scaled, sh[i].ScalarMul(num.N().FromUint64(5)))
		}
		if r, err := scheme.Reconstruct(added...); err == nil {
			env.Valid("C02.shamir/add-shares=add-secrets", env.EqF(r.Value(), s1.Add(s2)))
		}
		if r, err := scheme.Reconstruct(scaled...); err == nil {
			env.Valid("C02.shamir/scale-shares=scale-secret", env.EqF(r.Value(), s1.Mul(f.FromUint64(5))))
		}
	}
}

// c02Additive: additive sharing over the field and over the group for a unanimity structure.
func c02Additive[E algebra.PrimeGroupElement[E, S], S algebra.PrimeFieldElement[S]](env Env[E, S], ids []sharing.ID) {
	ac, err := unanimity.NewUnanimityAccessStructure(idSet(ids...))
	if err != nil {
		env.Reach("refused")
		return
	}
	f := env.Field()
	scheme, err := additive.NewScheme[S](algebra.FiniteGroup[S](f), ac)
	if !env.Check("C02.additive/scheme-ok", err == nil, fmt.Sprint(err)) {
		return
	}
	secret := env.Scalar("secret")
	sec, _ := additive.NewSecret(secret)
	out, err := scheme.Deal(sec, env.Reader("dealer"))
	if !env.Check("C02.additive/deal-ok", err == nil, fmt.Sprint(err)) {
		return
	}
	env.Reach("dealt")
	var all []*additive.Share[S]
	sum := f.Zero()
	for _, id := range ids {
		s, ok := out.Shares().Get(id)
		if !env.Check("C02.additive/every holder has a share", ok, fmt.Sprint(id)) {
			return
		}
		all = append(all, s)
		sum = sum.Add(s.Value())
	}
	env.Valid("C02.additive/Σ shares = secret", env.EqF(sum, secret))
	rec, err := scheme.Reconstruct(all...)
	if env.Check("C02.additive/reconstruct-ok", err == nil, fmt.Sprint(err)) {
		env.Valid("C02.additive/reconstruct=secret", env.EqF(rec.Value(), secret))
	}
	if len(all) > 1 {
		_, err := scheme.Reconstruct(all[1:]...)
		env.Check("C02.additive/proper subset refused", err != nil, "a proper subset reconstructed")
		// privacy: the missing share is a free variable: the rest is consistent with every secret
		if env.Symbolic() {
			part := f.Zero()
			for _, s := range all[1:] {
				part = part.Add(s.Value())
			}
			env.Witness("C02.additive/all-but-one shares can be zero whatever the secret", env.EqF(part, f.Zero()))
		}
	}
}

// c02ISN: Ito–Saito–Nishizeki replicated sharing on a CNF policy.
func c02ISN[E algebra.PrimeGroupElement[E, S], S algebra.PrimeFieldElement[S]](env Env[E, S], pol Policy) {
	as, err := pol.Build()
	if err != nil {
		env.Reach("refused")
		return
	}
	f := env.Field()
	scheme, err := guarded(func() (*isn.Scheme[S], error) { return isn.NewFiniteScheme[S](algebra.FiniteGroup[S](f), as) })
	if err != nil {
		env.Reach("refused")
		return
	}
	secret := env.Scalar("secret")
	out, err := scheme.Deal(isn.NewSecret(secret), env.Reader("dealer"))
	if !env.Check("C02.isn/deal-ok", err == nil, fmt.Sprint(err)) {
		return
	}
	env.Reach("dealt")
	// linearity: the sum of two dealings (independent symbolic randomness — the paths on which pieces
	// cancel are explored like any other) is a sharing of the sum of the secrets for every qualified set
	secret2 := env.Scalar("secret2")
	out2, err := scheme.Deal(isn.NewSecret(secret2), env.Reader("dealer2"))
	if env.Check("C02.isn/second-deal-ok", err == nil, fmt.Sprint(err)) {
		for _, A := range minimalQualified(as, pol.IDs) {
			var sum []*isn.Share[S]
			for _, id := range A {
				s1, ok1 := out.Shares().Get(id)
				s2, ok2 := out2.Shares().Get(id)
				if ok1 && ok2 {
					sum = append(sum, s1.Op(s2))
				}
			}
			if len(sum) != len(A) {
				continue
			}
			rec, err := scheme.Reconstruct(sum...)
			if env.Check("C02.isn/the sum of two sharings reconstructs (every path, including cancelling pieces)", err == nil, fmt.Sprintf("%s: %v", setName(A), err)) {
				env.Valid("C02.isn/add-shares=add-secrets", env.EqF(rec.Value(), secret.Add(secret2)))
			}
		}
	}
	for _, A := range subsetsOf(pol.IDs) {
		var sh []*isn.Share[S]
		for _, id := range A {
			if s, ok := out.Shares().Get(id); ok {
				sh = append(sh, s)
			}
		}
		if len(sh) != len(A) {
			continue
		}
		q := as.IsQualified(A...)
		env.Check("C02.isn/CanReconstruct ⇔ qualified", scheme.CanReconstruct(A...) == q, setName(A))
		rec, err := scheme.Reconstruct(sh...)
		if !q {
			env.Check("C02.isn/unqualified refused", err != nil, "unqualified set "+setName(A)+" reconstructed")
			continue
		}
		if env.Check("C02.isn/reconstruct-ok", err == nil, fmt.Sprintf("%s: %v", setName(A), err)) {
			env.Valid("C02.isn/reconstruct=secret", env.EqF(rec.Value(), secret))
		}
		quorum, qerr := unanimity.NewUnanimityAccessStructure(idSet(A...))
		if qerr != nil {
			continue
		}
		sum := f.Zero()
		okAll := true
		for _, s := range sh {
			// A shareholder contained in every maximal unqualified set receives an ISN share with no
			// component; Share.ToAdditive indexes the first component unconditionally and panics
			// (known finding, same root cause as the KW one). Isolated under its own obligation id.
			if s.Value().Size() == 0 {
				_, perr := guarded(func() (*additive.Share[S], error) { return s.ToAdditive(quorum) })
				if _, isPanic := perr.(panicErr); isPanic {
					env.Check("C02.isn/additive-componentless-share-panics", false, fmt.Sprintf("isn.Share.ToAdditive panics for holder %d whose share has no component (quorum %s): %v", s.ID(), setName(A), perr))
				}
				continue
			}
			a, err := s.ToAdditive(quorum)
			if !env.Check("C02.isn/additive-ok", err == nil, fmt.Sprintf("%d in %s: %v", s.ID(), setName(A), err)) {
				okAll = false
				break
			}
			sum = sum.Add(a.Value())
		}
		if okAll {
			env.Valid("C02.isn/additive-sum=secret", env.EqF(sum, secret))
		}
	}
}

// c02Tassa: Tassa's hierarchical scheme (Birkhoff interpolation). Symbolically: the additive
// conversion over every qualified quorum sums to the secret (the conversion coefficients are
// concrete Birkhoff minors). Reconstruct itself divides by pivots that depend on the shares and
// is therefore exercised only in the concrete validation run (obligations prefixed "concrete:").
func c02Tassa[E algebra.PrimeGroupElement[E, S], S algebra.PrimeFieldElement[S]](env Env[E, S], pol Policy) {
	as, err := pol.Build()
	h, ok := as.(*hierarchical.HierarchicalConjunctiveThreshold)
	if err != nil || !ok {
		env.Reach("refused")
		return
	}
	f := env.Field()
	// the dealer polynomial's coefficients are assumed non-zero (otherwise every Degree() call forks)
	env.AssumeDrawsNonZero()
	scheme, err := guarded(func() (*tassa.Scheme[S], error) { return tassa.NewScheme(h, f) })
	if err != nil {
		env.Reach("refused-by-scheme-constructor")
		return
	}
	secret := env.Scalar("secret")
	out, err := scheme.Deal(tassa.NewSecret(secret), env.Reader("dealer"))
	if !env.Check("C02.tassa/deal-ok", err == nil, fmt.Sprint(err)) {
		return
	}
	env.Reach("dealt")
	for _, A := range subsetsOf(pol.IDs) {
		if len(A) < 2 {
			continue
		}
		var sh []*tassa.Share[S]
		for _, id := range A {
			if s, ok := out.Shares().Get(id); ok {
				sh = append(sh, s)
			}
		}
		if len(sh) != len(A) {
			continue
		}
		q := as.IsQualified(A...)
		quorum, qerr := unanimity.NewUnanimityAccessStructure(idSet(A...))
		if qerr != nil {
			continue
		}
		if q {
			sum := f.Zero()
			okAll := true
			for _, s := range sh {
				a, err := scheme.ConvertShareToAdditive(s, quorum)
				if !env.Check("C02.tassa/additive-ok (accepted policy: every qualified quorum converts)", err == nil, fmt.Sprintf("%d in %s: %v", s.ID(), setName(A), err)) {
					okAll = false
					break
				}
				sum = sum.Add(a.Value())
			}
			if okAll {
				env.Valid("C02.tassa/additive-sum=secret", env.EqF(sum, secret))
			}
		} else {
			_, err := scheme.ConvertShareToAdditive(sh[0], quorum)
			env.Check("C02.tassa/unqualified quorum refused", err != nil, "additive conversion over unqualified "+setName(A))
		}
		if !env.Symbolic() {
			rec, err := scheme.Reconstruct(sh...)
			if q {
				if env.Check("concrete:C02.tassa/reconstruct-ok", err == nil, fmt.Sprintf("%s: %v", setName(A), err)) {
					env.Check("concrete:C02.tassa/reconstruct=secret", rec.Value().Equal(secret), "wrong secret from "+setName(A))
				}
			} else {
				env.Check("concrete:C02.tassa/unqualified refused", err != nil, setName(A))
			}
		}
	}
}

// extra hierarchical layouts for Tassa / KW: three levels, and layouts whose identifiers are NOT
// increasing from level to level (the library must refuse those: Tassa's condition).
func hierarchicalExtra() []Policy {
	return []Policy{
		hierarchicalPolicy([][2]int{{1, 1}, {2, 1}, {4, 3}}, []sharing.ID{1, 2, 3, 4, 5}),
		hierarchicalPolicy([][2]int{{1, 1}, {2, 2}, {3, 2}}, []sharing.ID{2, 3, 5, 7, 11}),
		hierarchicalPolicy([][2]int{{2, 2}, {3, 1}, {5, 3}}, []sharing.ID{1, 2, 3, 4, 5, 6}),
		hierarchicalPolicy([][2]int{{1, 2}, {3, 2}}, []sharing.ID{1, 3, 2, 4}),               // interleaved
		hierarchicalPolicy([][2]int{{1, 2}, {2, 2}, {4, 2}}, []sharing.ID{1, 2, 3, 5, 4, 6}), // interleaved
		hierarchicalPolicy([][2]int{{1, 1}, {2, 2}}, []sharing.ID{9, 2, 3}),                  // reversed
	}
}

// C02ExtraCases: the other schemes.
func C02ExtraCases(tier string, seed int64) []Case {
	var cases []Case
	all := PolicyCorpus(tier, seed)
	for _, pol := range append(all, hierarchicalExtra()...) {
		p := pol
		switch p.Family {
		case "threshold":
			cases = append(cases, both("C02/shamir/"+p.Name, map[string]any{"scheme": "shamir", "policy": p.Name},
				func(e Env[*symalg.G, *symalg.F]) { c02Shamir(e, p) }, func(e Env[*k256.Point, *k256.Scalar]) { c02Shamir(e, p) }))
		case "unanimity":
			ids := p.IDs
			cases = append(cases, both("C02/additive/"+p.Name, map[string]any{"scheme": "additive", "policy": p.Name},
				func(e Env[*symalg.G, *symalg.F]) { c02Additive(e, ids) }, func(e Env[*k256.Point, *k256.Scalar]) { c02Additive(e, ids) }))
		case "cnf":
			cases = append(cases, both("C02/isn/"+p.Name, map[string]any{"scheme": "isn", "policy": p.Name},
				func(e Env[*symalg.G, *symalg.F]) { c02ISN(e, p) }, func(e Env[*k256.Point, *k256.Scalar]) { c02ISN(e, p) }))
		case "hierarchical":
			cases = append(cases, both("C02/tassa/"+p.Name, map[string]any{"scheme": "tassa", "policy": p.Name},
				func(e Env[*symalg.G, *symalg.F]) { c02Tassa(e, p) }, func(e Env[*k256.Point, *k256.Scalar]) { c02Tassa(e, p) }))
		}
	}
	for _, pol := range hierarchicalExtra() {
		p := pol
		cases = append(cases, both("C02/kw/"+p.Name, map[string]any{"scheme": "kw", "policy": p.Name},
			func(e Env[*symalg.G, *symalg.F]) { c02KW(e, p) }, func(e Env[*k256.Point, *k256.Scalar]) { c02KW(e, p) }))
	}
	return cases
}
