package e2

import (
	"fmt"
	"strings"

	"github.com/bronlabs/bron-crypto/pkg/base/algebra"
	ds "github.com/bronlabs/bron-crypto/pkg/base/datastructures"
	"github.com/bronlabs/bron-crypto/pkg/mpc"
	"github.com/bronlabs/bron-crypto/pkg/mpc/dkg/trusteddealer"
	"github.com/bronlabs/bron-crypto/pkg/mpc/redistribute"
	"github.com/bronlabs/bron-crypto/pkg/mpc/sharing"
	"github.com/bronlabs/bron-crypto/pkg/mpc/sharing/accessstructures"
	"github.com/bronlabs/bron-crypto/pkg/mpc/sharing/scheme/kw"
	"github.com/bronlabs/bron-crypto/pkg/mpc/sharing/vss/feldman"

	"verif/engine/symalg"
)

type redistTamper[E algebra.PrimeGroupElement[E, S], S algebra.PrimeFieldElement[S]] struct {
	R2B func(sender sharing.ID, m *redistribute.Round2Broadcast[E, S]) *redistribute.Round2Broadcast[E, S]
	R2U func(sender, rcpt sharing.ID, m *redistribute.Round2P2P[E, S]) *redistribute.Round2P2P[E, S]
	R1U func(sender, rcpt sharing.ID, m *redistribute.Round1P2P[E, S]) *redistribute.Round1P2P[E, S]
	R1B func(sender sharing.ID, m *redistribute.Round1Broadcast[E, S]) *redistribute.Round1Broadcast[E, S]
}

type redistResult[E algebra.PrimeGroupElement[E, S], S algebra.PrimeFieldElement[S]] struct {
	Shards map[sharing.ID]*mpc.BaseShard[E, S]
	Errs   map[sharing.ID]error
	Round  map[sharing.ID]int
}

func unionIDs(a, b []sharing.ID) []sharing.ID {
	seen := map[sharing.ID]bool{}
	var out []sharing.ID
	for _, x := range append(append([]sharing.ID(nil), a...), b...) {
		if !seen[x] {
			seen[x] = true
			out = append(out, x)
		}
	}
	return sortedIDs(out)
}

// runRedistribute runs the real redistribute protocol: prevHolders (a qualified set of the previous
// structure, holding prevShards) hand the key over to the shareholders of nextAS.
func runRedistribute[E algebra.PrimeGroupElement[E, S], S algebra.PrimeFieldElement[S]](env Env[E, S], tag string, prevHolders []sharing.ID, prevShards map[sharing.ID]*mpc.BaseShard[E, S], nextAS accessstructures.Monotone, anchor sharing.ID, tamper *redistTamper[E, S]) (*redistResult[E, S], error) {
	nextIDs := sortedIDs(nextAS.Shareholders().List())
	all := unionIDs(prevHolders, nextIDs)
	ctxs, err := makeContexts(tag, all)
	if err != nil {
		return nil, err
	}
	isPrev := map[sharing.ID]bool{}
	for _, id := range prevHolders {
		isPrev[id] = true
	}
	parts := map[sharing.ID]*redistribute.Participant[E, S]{}
	for _, id := range all {
		var shard *mpc.BaseShard[E, S]
		if isPrev[id] {
			shard = prevShards[id]
		}
		var opts []redistribute.Option
		if anchor != 0 && !isPrev[id] {
			opts = append(opts, redistribute.WithTrustedAnchorID(anchor))
		}
		p, err := guarded(func() (*redistribute.Participant[E, S], error) {
			return redistribute.NewParticipant(ctxs[id], idSet(prevHolders...), shard, nextAS, env.Reader(fmt.Sprintf("%s/party%d", tag, id)), opts...)
		})
		if err != nil {
			return nil, fmt.Errorf("NewParticipant(%d): %w", id, err)
		}
		parts[id] = p
	}
	res := &redistResult[E, S]{Shards: map[sharing.ID]*mpc.BaseShard[E, S]{}, Errs: map[sharing.ID]error{}, Round: map[sharing.ID]int{}}
	r1b := map[sharing.ID]*redistribute.Round1Broadcast[E, S]{}
	r1u := map[sharing.ID]ds.Map[sharing.ID, *redistribute.Round1P2P[E, S]]{}
	for _, id := range all {
		env.SetActor(fmt.Sprint(id))
		b, u, err := parts[id].Round1()
		if err != nil {
			res.Errs[id], res.Round[id] = err, 1
			return res, nil
		}
		if u != nil && tamper != nil && tamper.R1U != nil {
			u = mapUnicasts(u, func(rcpt sharing.ID, m *redistribute.Round1P2P[E, S]) *redistribute.Round1P2P[E, S] {
				return tamper.R1U(id, rcpt, m)
			})
		}
		if tamper != nil && tamper.R1B != nil && isPrev[id] {
			b = tamper.R1B(id, b)
		}
		r1b[id] = b
		if u != nil {
			r1u[id] = u
		}
	}
	r2b := map[sharing.ID]*redistribute.Round2Broadcast[E, S]{}
	r2u := map[sharing.ID]ds.Map[sharing.ID, *redistribute.Round2P2P[E, S]]{}
	for _, id := range all {
		env.SetActor(fmt.Sprint(id))
		type r2out struct {
			b *redistribute.Round2Broadcast[E, S]
			u ds.Map[sharing.ID, *redistribute.Round2P2P[E, S]]
		}
		o, err := guarded(func() (r2out, error) {
			b, u, err := parts[id].Round2(othersOf(id, r1b), unicastsTo(id, r1u))
			return r2out{b, u}, err
		})
		b, u := o.b, o.u
		if err != nil {
			res.Errs[id], res.Round[id] = err, 2
			continue
		}
		if tamper != nil && tamper.R2B != nil && isPrev[id] {
			b = tamper.R2B(id, b)
		}
		if u != nil && tamper != nil && tamper.R2U != nil {
			u = mapUnicasts(u, func(rcpt sharing.ID, m *redistribute.Round2P2P[E, S]) *redistribute.Round2P2P[E, S] {
				return tamper.R2U(id, rcpt, m)
			})
		}
		r2b[id] = b
		if u != nil {
			r2u[id] = u
		}
	}
	if len(res.Errs) > 0 {
		return res, nil
	}
	for _, id := range all {
		env.SetActor(fmt.Sprint(id))
		sh, err := guarded(func() (*mpc.BaseShard[E, S], error) {
			return parts[id].Round3(othersOf(id, r2b), unicastsTo(id, r2u))
		})
		if err != nil {
			res.Errs[id], res.Round[id] = err, 3
			continue
		}
		if sh != nil {
			res.Shards[id] = sh
		}
	}
	return res, nil
}

func mapUnicasts[M any](u ds.Map[sharing.ID, M], f func(rcpt sharing.ID, m M) M) ds.Map[sharing.ID, M] {
	out := map[sharing.ID]M{}
	for rcpt, m := range u.Iter() {
		out[rcpt] = f(rcpt, m)
	}
	return othersOf(0, out)
}

// epochOp is one step of a history.
type epochOp struct {
	Kind   string // refresh | recover | redistribute
	Lost   int    // recover: index (in the current holder list) of the holder that lost its share
	To     int    // redistribute: index into c06Structures
	Anchor bool   // newcomers trust the first previous holder as anchor
}

func (o epochOp) String() string {
	switch o.Kind {
	case "recover":
		return fmt.Sprintf("recover(lost#%d)", o.Lost)
	case "redistribute":
		return fmt.Sprintf("redistribute(→%d,anchor=%v)", o.To, o.Anchor)
	case "rekey":
		return fmt.Sprintf("rekey(by-minimal-quorum#%d,anchor=%v)", o.Lost, o.Anchor)
	}
	return o.Kind
}

// the structures histories move between
func c06Structures() []Policy {
	return []Policy{
		thresholdPolicy(2, []sharing.ID{1, 2, 3}),
		thresholdPolicy(3, []sharing.ID{2, 3, 5, 7}),
		cnfPolicy([]int{0b001, 0b110}, []sharing.ID{1, 2, 3}),
		thresholdPolicy(2, []sharing.ID{4, 9}),
		gatePolicy(&gate{1, []any{&gate{2, []any{0, 1}}, &gate{2, []any{0, 2}}}}, []sharing.ID{1, 2, 3}),
		// three clauses (MSP dimension 3) but qualified quorums of size 2
		cnfPolicy([]int{0b0011, 0b1100, 0b0101}, []sharing.ID{1, 2, 3, 4}),
	}
}

// c06History: trusted dealing on structure `start`, then the operations in order. After every
// step: PK unchanged, the new key material is consistent (checkKeyMaterial), and shares mixed
// across epochs do not reconstruct the key.
func c06History[E algebra.PrimeGroupElement[E, S], S algebra.PrimeFieldElement[S]](env Env[E, S], start int, ops []epochOp) {
	env.AssumeDrawsNonZero()
	structs := c06Structures()
	cur := structs[start]
	as, err := cur.Build()
	if err != nil {
		env.Reach("refused")
		return
	}
	group := env.Group()
	g := group.Generator()
	dealt, err := guarded(func() (ds.Map[sharing.ID, *mpc.BaseShard[E, S]], error) {
		return trusteddealer.Deal(group, as, env.Reader("dealer"))
	})
	if err != nil {
		env.Reach("refused")
		return
	}
	shards := map[sharing.ID]*mpc.BaseShard[E, S]{}
	for id, s := range dealt.Iter() {
		shards[id] = s
	}
	holders := sortedIDs(cur.IDs)
	pk0 := shards[holders[0]].PublicKeyValue()
	for step, op := range ops {
		pfx := fmt.Sprintf("C06/step%d:%s", step+1, op.Kind)
		tag := fmt.Sprintf("c06/%d/%s", step, op)
		var prevHolders []sharing.ID
		nextPol := cur
		switch op.Kind {
		case "refresh":
			prevHolders = holders
		case "recover":
			if op.Lost >= len(holders) {
				env.Reach("op-not-applicable")
				return
			}
			for i, id := range holders {
				if i != op.Lost {
					prevHolders = append(prevHolders, id)
				}
			}
			if !as.IsQualified(prevHolders...) {
				env.Reach("op-not-applicable: remaining holders unqualified")
				return
			}
		case "rekey":
			// the op.Lost-th minimal qualified set re-shares to the whole (same) structure: everybody
			// else recovers
			mq := minimalQualified(as, holders)
			if op.Lost >= len(mq) {
				env.Reach("op-not-applicable")
				return
			}
			prevHolders = sortedIDs(mq[op.Lost])
		case "redistribute":
			nextPol = structs[op.To]
			// a minimal qualified set of the current structure drives the step
			mq := minimalQualified(as, holders)
			if len(mq) == 0 {
				env.Reach("op-not-applicable")
				return
			}
			prevHolders = sortedIDs(mq[0])
		}
		nextAS, err := nextPol.Build()
		if err != nil {
			env.Reach("refused")
			return
		}
		anchor := sharing.ID(0)
		if op.Anchor {
			anchor = prevHolders[0]
		}
		res, err := runRedistribute(env, tag, prevHolders, shards, nextAS, anchor, nil)
		if err != nil {
			// prevHolders is a qualified set of the current structure by construction: the protocol
			// must accept it
			env.Check(pfx+"/a qualified set of previous holders is accepted", false, fmt.Sprintf("previous holders %s: %v", setName(prevHolders), err))
			return
		}
		for id, e := range res.Errs {
			if strings.Contains(fmt.Sprintf("%+v", e), "zero sharing must be retried") {
				env.Reach("measure-zero retry abort")
				return
			}
			env.Check(pfx+"/no honest party aborts", false, fmt.Sprintf("party %d aborted in round %d: %v", id, res.Round[id], e))
		}
		if len(res.Errs) > 0 {
			return
		}
		nextIDs := sortedIDs(nextAS.Shareholders().List())
		for _, id := range nextIDs {
			env.Check(pfx+"/every next shareholder gets a shard", res.Shards[id] != nil, fmt.Sprintf("holder %d has no shard", id))
		}
		pk, ok := checkKeyMaterial(env, pfx, nextAS, nextIDs, res.Shards)
		if !ok {
			return
		}
		env.Valid(pfx+"/public key unchanged", env.EqG(pk, pk0))
		// mixing epochs: a quorum that uses one share of the previous epoch does not reconstruct
		if env.Symbolic() {
			scheme, err := feldman.NewScheme(group, nextAS)
			if err == nil {
				for _, Q := range minimalQualified(nextAS, nextIDs) {
					if len(Q) < 2 {
						continue
					}
					old, has := shards[Q[0]]
					if !has || len(old.Share().Value()) != len(res.Shards[Q[0]].Share().Value()) {
						continue
					}
					mixed := []*kw.Share[S]{old.Share()}
					for _, id := range Q[1:] {
						mixed = append(mixed, res.Shards[id].Share())
					}
					rec, err := scheme.Reconstruct(mixed...)
					if err != nil {
						continue
					}
					env.Witness(pfx+"/shares mixed across epochs do not reconstruct the key", symalg.Not(env.EqG(g.ScalarOp(rec.Value()), pk0)))
					break
				}
			}
		}
		shards, holders, cur, as = res.Shards, nextIDs, nextPol, nextAS
		env.Reach(fmt.Sprintf("step%d-done", step+1))
	}
}

// C06Cases builds the histories.
func C06Cases(tier string, seed int64) []Case {
	var cases []Case
	single := []epochOp{
		{Kind: "refresh"}, {Kind: "recover", Lost: 0}, {Kind: "recover", Lost: 2},
		{Kind: "redistribute", To: 1}, {Kind: "redistribute", To: 1, Anchor: true}, {Kind: "redistribute", To: 2, Anchor: true},
		{Kind: "redistribute", To: 3, Anchor: true}, {Kind: "redistribute", To: 4},
	}
	add := func(start int, ops []epochOp) {
		var names []string
		for _, o := range ops {
			names = append(names, o.String())
		}
		o := ops
		c := both(fmt.Sprintf("C06/start=%d/%s", start, strings.Join(names, ",")), map[string]any{"start": c06Structures()[start].Name, "history": names},
			func(e Env[*symalg.G, *symalg.F]) { c06History(e, start, o) }, nil)
		cases = append(cases, c)
	}
	for _, start := range []int{0, 2, 4} {
		for _, o := range single {
			add(start, []epochOp{o})
		}
	}
	for q := 0; q < 4; q++ {
		add(5, []epochOp{{Kind: "rekey", Lost: q, Anchor: q%2 == 0}})
		add(2, []epochOp{{Kind: "rekey", Lost: q}})
	}
	add(0, []epochOp{{Kind: "redistribute", To: 5, Anchor: true}, {Kind: "rekey", Lost: 1}})
	add(0, []epochOp{{Kind: "redistribute", To: 5}, {Kind: "rekey", Lost: 2, Anchor: true}})
	// the key does not change for anybody who accepts, even when one previous holder enters the
	// step with a forged (self-consistent) shard of another key; deviator at every position
	t23 := thresholdPolicy(2, []sharing.ID{1, 2, 3})
	for _, cfg := range []redistConfig{
		{t23, t23, []sharing.ID{2, 3}, false}, {t23, t23, []sharing.ID{1, 3}, false}, {t23, t23, []sharing.ID{1, 2, 3}, false},
		{t23, thresholdPolicy(2, []sharing.ID{4, 9}), []sharing.ID{1, 2}, false},
		{c06Structures()[5], c06Structures()[5], []sharing.ID{1, 4}, false},
	} {
		c := cfg
		for _, dev := range c.Prev {
			fl := redistFault{Kind: "forged-shard", Deviator: dev, Prefix: "C06.deviating-holder"}
			cases = append(cases, Case{ID: fmt.Sprintf("C06/forged-shard/%s→%s/prev=%s/dev=%d", c.From.Name, c.To.Name, setName(c.Prev), dev),
				Desc: map[string]any{"from": c.From.Name, "to": c.To.Name, "previous_holders": c.Prev, "deviator": dev, "fault": "deviator holds a self-consistent shard of a different key that agrees with the honest holders' shares", "anchor": "none"},
				Sym:  func(e *SymEnv) { c04Redistribute(e, c.From, c.To, c.Prev, 0, fl) }})
		}
	}
	// histories of length 2 (quick: from structure 0) and 3 (thorough)
	second := []epochOp{{Kind: "refresh"}, {Kind: "recover", Lost: 1}, {Kind: "redistribute", To: 0, Anchor: true}, {Kind: "redistribute", To: 2}}
	for _, a := range single {
		for _, b := range second {
			add(0, []epochOp{a, b})
			if tier == "thorough" {
				add(2, []epochOp{a, b})
				for _, c := range second {
					add(0, []epochOp{a, b, c})
				}
			}
		}
	}
	return cases
}
