package e2

import (
	"fmt"

	"github.com/bronlabs/bron-crypto/pkg/base/algebra"
	"github.com/bronlabs/bron-crypto/pkg/base/algebra/constructions"
	"github.com/bronlabs/bron-crypto/pkg/commitments/indcpacom"
	"github.com/bronlabs/bron-crypto/pkg/encryption/elgamal"
	"github.com/bronlabs/bron-crypto/pkg/proofs/dlog/batch_schnorr"
	schnorrpok "github.com/bronlabs/bron-crypto/pkg/proofs/dlog/schnorr"
	"github.com/bronlabs/bron-crypto/pkg/proofs/elgamal/elcomop"
	"github.com/bronlabs/bron-crypto/pkg/proofs/elgamal/elog"
	"github.com/bronlabs/bron-crypto/pkg/proofs/sigma/compiler"
	"github.com/bronlabs/bron-crypto/pkg/proofs/sigma/compose/sigand"

	"verif/engine/symalg"
)

// ElGamal-based sigma protocols: elcomop (knowledge of an opening (M', λ) of an ElGamal commitment
// (L, M) = (g^λ, M'·X^λ)) and elog (AND of elcomop and Schnorr: additionally M' = g^y and Y = h^y).
// The ElGamal key X = g^a has a symbolic secret a, the opening, y, λ and h are symbolic.

type egCommitKey = indcpacom.CommitmentKey[*elgamal.PublicKey[sG, sF], *elgamal.Plaintext[sG, sF], *elgamal.Nonce[sF], *elgamal.Ciphertext[sG, sF]]

func c08ElgamalSetup(env *SymEnv, pfx string) (*egCommitKey, bool) {
	f := env.Field()
	group := env.R.Group()
	a := env.Scalar("a")
	env.Assume(symalg.Not(env.EqF(a, f.Zero())))
	env.Assume(symalg.Not(env.EqF(a, f.One())))
	sk, err := elgamal.NewSecretKey[sG, sF](group.Generator(), a)
	if !env.Check(pfx+"/key-ok", err == nil, fmt.Sprint(err)) {
		return nil, false
	}
	ck, err := indcpacom.NewCommitmentKey(sk.Public())
	if !env.Check(pfx+"/commitment-key-ok", err == nil, fmt.Sprint(err)) {
		return nil, false
	}
	return ck, true
}

// c08Commit commits to the group element msg with nonce lambda.
func c08Commit(env *SymEnv, pfx string, ck *egCommitKey, msg sG, lambda sF) (*elcomop.Witness[sG, sF], *indcpacom.Commitment[*elgamal.Ciphertext[sG, sF]], bool) {
	nonce, err := elgamal.NewNonce(lambda)
	if !env.Check(pfx+"/nonce-ok", err == nil, fmt.Sprint(err)) {
		return nil, nil, false
	}
	iw, err := indcpacom.NewWitness(nonce)
	if !env.Check(pfx+"/indcpa-witness-ok", err == nil, fmt.Sprint(err)) {
		return nil, nil, false
	}
	pt, err := elgamal.NewPlaintext(msg)
	if !env.Check(pfx+"/plaintext-ok", err == nil, fmt.Sprint(err)) {
		return nil, nil, false
	}
	m, err := indcpacom.NewMessage(pt)
	if !env.Check(pfx+"/message-ok", err == nil, fmt.Sprint(err)) {
		return nil, nil, false
	}
	com, err := ck.CommitWithWitness(m, iw)
	if !env.Check(pfx+"/commit-ok", err == nil, fmt.Sprint(err)) {
		return nil, nil, false
	}
	w, err := elcomop.NewWitness(m, iw)
	if !env.Check(pfx+"/witness-ok", err == nil, fmt.Sprint(err)) {
		return nil, nil, false
	}
	return w, com, true
}

func elcomopShift(env *SymEnv, z *elcomop.Response[sG, sF], d sF) []*elcomop.Response[sG, sF] {
	group := env.R.Group()
	msg, nonce := z.Z.Components()
	pg, err := constructions.NewFiniteDirectProductGroup(algebra.PrimeGroup[sG, sF](group), algebra.PrimeField[sF](env.R.Field()))
	if err != nil {
		panic(err)
	}
	v1, e1 := pg.New(msg.Op(group.Generator().ScalarOp(d)), nonce)
	v2, e2 := pg.New(msg, nonce.Add(d))
	if e1 != nil || e2 != nil {
		panic(fmt.Sprint(e1, e2))
	}
	return []*elcomop.Response[sG, sF]{{Z: v1}, {Z: v2}}
}

func c08Elcomop(env *SymEnv) {
	env.AssumeDrawsNonZero()
	pfx := "C08.elcomop"
	group := env.R.Group()
	ck, ok := c08ElgamalSetup(env, pfx)
	if !ok {
		return
	}
	p, err := elcomop.NewProtocol(algebra.PrimeGroup[sG, sF](group), ck, env.Reader("prover"))
	if !env.Check(pfx+"/protocol-ok", err == nil, fmt.Sprint(err)) {
		return
	}
	msg := env.Point("M'")
	lambda := env.Scalar("lambda")
	env.Assume(symalg.Not(env.EqF(lambda, env.Field().Zero())))
	w, com, ok := c08Commit(env, pfx, ck, msg, lambda)
	if !ok {
		return
	}
	x, err := elcomop.NewStatement(com)
	if !env.Check(pfx+"/statement-ok", err == nil, fmt.Sprint(err)) {
		return
	}
	sigmaCore(env, pfx, p, x, w, func(z *elcomop.Response[sG, sF], d sF) []*elcomop.Response[sG, sF] { return elcomopShift(env, z, d) })
	// another statement: commitment to M'·g under the same nonce
	_, com2, ok := c08Commit(env, pfx+"/other", ck, msg.Op(group.Generator()), lambda)
	if !ok {
		return
	}
	ox, err := elcomop.NewStatement(com2)
	if err == nil {
		fsBinding(env, pfx, p, x, w, ox)
	}
	// a witness that does not open the commitment: ValidateStatement refuses it and an honest-format
	// transcript built from it is rejected (δ-shifted plaintext resp. nonce, for every δ ≠ 0)
	delta := env.Scalar("delta-w")
	env.Assume(symalg.Not(env.EqF(delta, env.Field().Zero())))
	for k, bad := range []struct {
		m sG
		l sF
	}{{msg.Op(group.Generator().ScalarOp(delta)), lambda}, {msg, lambda.Add(delta)}} {
		// (λ+δ may be zero: NewNonce refuses a zero nonce; that path ends in the constructor)
		if k == 1 {
			env.Assume(symalg.Not(env.EqF(bad.l, env.Field().Zero())))
		}
		bw, _, ok := c08Commit(env, fmt.Sprintf("%s/wrong-witness-%d", pfx, k), ck, bad.m, bad.l)
		if !ok {
			return
		}
		env.Check(fmt.Sprintf("%s/ValidateStatement refuses a witness whose component %d is shifted by δ≠0", pfx, k), p.ValidateStatement(x, bw) != nil, "wrong witness accepted")
		e := fitChal(chal(4), p.GetChallengeBytesLength())
		a, st, err := p.ComputeProverCommitment(x, bw)
		if err != nil {
			continue
		}
		z, err := p.ComputeProverResponse(x, bw, a, st, e)
		if err != nil {
			continue
		}
		// (for the zero challenge the response does not depend on the witness)
		env.Check(fmt.Sprintf("%s/a transcript made with a wrong witness (component %d) is rejected", pfx, k), p.Verify(x, a, e, z) != nil, "transcript from a wrong witness accepted")
	}
	env.Reach(pfx + "/done")
}

func c08Elog(env *SymEnv) {
	env.AssumeDrawsNonZero()
	pfx := "C08.elog"
	f := env.Field()
	group := env.R.Group()
	g := group.Generator()
	ck, ok := c08ElgamalSetup(env, pfx)
	if !ok {
		return
	}
	h := env.Point("h")
	env.Assume(symalg.Not(env.EqG(h, group.OpIdentity())))
	p, err := elog.NewProtocol(algebra.PrimeGroup[sG, sF](group), ck, h, env.Reader("prover"))
	if !env.Check(pfx+"/protocol-ok", err == nil, fmt.Sprint(err)) {
		return
	}
	y, lambda := env.Scalar("y"), env.Scalar("lambda")
	env.Assume(symalg.Not(env.EqF(lambda, f.Zero())))
	ew, com, ok := c08Commit(env, pfx, ck, g.ScalarOp(y), lambda)
	if !ok {
		return
	}
	w, err := elog.NewWitness(ew, schnorrpok.NewWitness(y))
	if !env.Check(pfx+"/witness-ok", err == nil, fmt.Sprint(err)) {
		return
	}
	es, err := elcomop.NewStatement(com)
	if !env.Check(pfx+"/elcomop-statement-ok", err == nil, fmt.Sprint(err)) {
		return
	}
	x, err := elog.NewStatement(es, schnorrpok.NewStatement[sG, sF](h.ScalarOp(y)))
	if !env.Check(pfx+"/statement-ok", err == nil, fmt.Sprint(err)) {
		return
	}
	sigmaCore(env, pfx, p, x, w, func(z *elog.Response[sG, sF], d sF) []*elog.Response[sG, sF] {
		var out []*elog.Response[sG, sF]
		for _, e := range elcomopShift(env, z.Z0, d) {
			out = append(out, &sigand.ResponseCartesian[*elcomop.Response[sG, sF], *schnorrpok.Response[sF]]{Z0: e, Z1: z.Z1})
		}
		out = append(out, &sigand.ResponseCartesian[*elcomop.Response[sG, sF], *schnorrpok.Response[sF]]{Z0: z.Z0, Z1: &schnorrpok.Response[sF]{Z: z.Z1.Z.Add(d)}})
		return out
	})
	// the binding the composition exists for: a Schnorr witness y' ≠ y next to an opening of g^y
	dy := env.Scalar("delta-y")
	env.Assume(symalg.Not(env.EqF(dy, f.Zero())))
	_, err = elog.NewWitness(ew, schnorrpok.NewWitness(y.Add(dy)))
	env.Check(pfx+"/NewWitness refuses a Schnorr witness that is not the discrete log of the committed element", err != nil, "mismatching witnesses composed")
	// statement with Y = h^(y+δ): the honest witness is refused by ValidateStatement
	ox, err := elog.NewStatement(es, schnorrpok.NewStatement[sG, sF](h.ScalarOp(y.Add(dy))))
	if err == nil {
		env.Check(pfx+"/ValidateStatement refuses Y ≠ h^y", p.ValidateStatement(ox, w) != nil, "accepted")
		fsBinding(env, pfx, p, x, w, ox)
	}
	env.Reach(pfx + "/done")
}

// c08Compilers: the Fischlin and randomised-Fischlin compilers over Schnorr (k = 1) or batch
// Schnorr (k ≥ 2: special soundness k+1, so the compilers' parameters b, t, ρ change with k). The
// provers' searches hash interned encodings of symbolic responses; the hashes run for real, so the
// search is a concrete loop and the proof a list of (commitment, challenge, response) triples with
// symbolic group / field members.
func c08Compilers(env *SymEnv, cname compiler.Name, k int) {
	env.AssumeDrawsNonZero()
	group := env.R.Group()
	g := group.Generator()
	pfx := fmt.Sprintf("C08.compiled[k=%d]", k)
	if k == 1 {
		p, err := schnorrpok.NewProtocol[sG, sF](g, env.Reader("prover"))
		if !env.Check(pfx+"/protocol-ok", err == nil, fmt.Sprint(err)) {
			return
		}
		wv := env.Scalar("w")
		x := schnorrpok.NewStatement[sG, sF](g.ScalarOp(wv))
		niBinding(env, pfx, cname, p, x, schnorrpok.NewWitness(wv), schnorrpok.NewStatement[sG, sF](g.ScalarOp(wv.Add(env.Field().One()))))
		env.Reach("compiled-done")
		return
	}
	p, err := batch_schnorr.NewProtocol[sG, sF](k, group, env.Reader("prover"))
	if !env.Check(pfx+"/protocol-ok", err == nil, fmt.Sprint(err)) {
		return
	}
	ws := make([]sF, k)
	xs := make([]sG, k)
	for i := range ws {
		ws[i] = env.Scalar(fmt.Sprintf("w%d", i))
		xs[i] = g.ScalarOp(ws[i])
	}
	xs2 := append([]sG(nil), xs...)
	xs2[k-1] = xs2[k-1].Op(g)
	niBinding(env, pfx, cname, p, batch_schnorr.NewStatement[sG, sF](g, xs...), batch_schnorr.NewWitness(ws...), batch_schnorr.NewStatement[sG, sF](g, xs2...))
	env.Reach("compiled-done")
}
