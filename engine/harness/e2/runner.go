package e2

import (
	"crypto/sha256"
	"encoding/hex"
	"encoding/json"
	"fmt"
	"math/big"
	"os"
	"os/exec"
	"path/filepath"
	"regexp"
	"runtime"
	"sort"
	"strings"
	"sync"
	"time"

	"verif/engine/symalg"
)

// Case is one configuration of a harness (policy, IDs, quorum, shapes, deviator …): inside it all
// field/group values are symbolic and the verdict is the solver's.
type Case struct {
	ID   string
	Desc any
	// Sym runs the harness on the model algebra (symbolic, or concrete-model when replaying).
	Sym func(env *SymEnv)
	// Real, when non-nil, runs the same generic harness on real secp256k1 (replay only).
	Real func(env *RealEnv)
	// Modulus overrides the default modulus name for this case ("" = run default).
	Modulus string
	// NoConcreteValidation skips the differential concrete-model validation run for this case
	// (used by harnesses whose obligations are existential).
	NoConcreteValidation bool
	// MustReach lists reachability markers that some path has to hit (vacuity guard).
	MustReach []string
}

// Config of a property run.
type Config struct {
	Property   string
	Tier       string
	Seed       int64
	Workers    int
	Solver     string
	Cross      string
	TimeoutMs  int
	VerifDir   string
	Moduli     []string
	Functions  []string // functions of /repo the harnesses drive (entry points; evidence)
	Bounds     map[string]any
	Assumes    []string
	Outside    []string
	Level      string
	OnlyCase   string // regexp filter (debugging / replay)
	ReplayFile string
	// Child mode: run the jobs of shard ShardIdx (of ShardN) sequentially and append one JSON line
	// per finished job to OutFile.
	Child            bool
	ShardIdx, ShardN int
	OutFile          string
	InProcess        bool // debugging: no child processes
}

type caseResult struct {
	c        Case
	CaseID   string          `json:"case"`
	Job      int             `json:"job"`
	Modulus  string          `json:"modulus"`
	Out      *symalg.Outcome `json:"out"`
	Stats    map[string]any  `json:"stats"`
	Concrete *symalg.Outcome `json:"concrete,omitempty"`
	Replays  []replayResult  `json:"replays,omitempty"`
	Wall     float64         `json:"wall"`
}

type replayResult struct {
	Obligation string            `json:"obligation"`
	Case       string            `json:"case"`
	Modulus    string            `json:"modulus"`
	Model      map[string]string `json:"model"`
	ModelRepro bool              `json:"reproduced_in_concrete_model"`
	RealRepro  string            `json:"reproduced_on_secp256k1"` // yes | no | n/a
	Reason     string            `json:"reason"`
	File       string            `json:"file,omitempty"`
}

// KnownFinding is an entry of /verif/known_findings.json.
type KnownFinding struct {
	Property string `json:"property"`
	Status   string `json:"status"` // "known" | "fixed"
	Match    string `json:"match"`  // regexp over "<case id>#<obligation id>"
	What     string `json:"what"`
	Commit   string `json:"commit,omitempty"`
}

func loadKnown(dir string) []KnownFinding {
	b, err := os.ReadFile(filepath.Join(dir, "known_findings.json"))
	if err != nil {
		return nil
	}
	var k struct {
		Findings []KnownFinding `json:"findings"`
	}
	if json.Unmarshal(b, &k) != nil {
		return nil
	}
	return k.Findings
}

// RunProperty explores all cases, replays counterexamples, writes the evidence file and prints the
// VIOLATION / KNOWN-FINDING lines. It returns the process exit code.
func RunProperty(cfg Config, cases []Case) int {
	t0 := time.Now()
	if cfg.Workers <= 0 {
		cfg.Workers = min(runtime.NumCPU(), 16)
	}
	if cfg.TimeoutMs == 0 {
		cfg.TimeoutMs = 30000
	}
	if cfg.VerifDir == "" {
		cfg.VerifDir = "/verif"
	}
	if len(cfg.Moduli) == 0 {
		cfg.Moduli = []string{"secp256k1"}
	}
	if cfg.OnlyCase != "" {
		re := regexp.MustCompile(cfg.OnlyCase)
		var f []Case
		for _, c := range cases {
			if re.MatchString(c.ID) {
				f = append(f, c)
			}
		}
		cases = f
	}
	type job struct {
		c   Case
		mod string
	}
	var jobs []job
	for _, m := range cfg.Moduli {
		for _, c := range cases {
			mm := m
			if c.Modulus != "" {
				mm = c.Modulus
			}
			jobs = append(jobs, job{c, mm})
		}
	}
	results := make([]*caseResult, len(jobs))
	if cfg.Child {
		f, err := os.OpenFile(cfg.OutFile, os.O_CREATE|os.O_WRONLY|os.O_APPEND, 0o644)
		if err != nil {
			fmt.Println("child: cannot open out file:", err)
			return 2
		}
		defer f.Close()
		for i := range jobs {
			if i%cfg.ShardN != cfg.ShardIdx {
				continue
			}
			r := runCase(cfg, jobs[i].c, jobs[i].mod)
			r.Job = i
			b, _ := json.Marshal(r)
			f.Write(append(b, '\n'))
		}
		return 0
	}
	if cfg.InProcess {
		for i := range jobs {
			results[i] = runCase(cfg, jobs[i].c, jobs[i].mod)
			results[i].Job = i
		}
	} else {
		runSharded(cfg, len(jobs), results)
	}
	for i := range jobs {
		if results[i] == nil {
			results[i] = &caseResult{CaseID: jobs[i].c.ID, Job: i, Modulus: jobs[i].mod,
				Out: &symalg.Outcome{Name: jobs[i].c.ID, Obligations: map[string]*symalg.Obligation{}, Inconclusive: "worker process died before finishing this case"}}
		}
		results[i].c = jobs[i].c
	}

	// aggregate
	known := loadKnown(cfg.VerifDir)
	var (
		nObl, nValid, nWitnessed, nViol, nInconc int
		paths, forks, genericity                 int
		queries                                  = map[string]float64{}
		samples                                  []any
		violations                               []replayResult
		mismatches                               []replayResult
		inconclusive                             []string
		concreteRuns, concreteFail               int
		rawMismatch                              int
		concreteSpot                             int
		distinct                                 = map[string]bool{}
		reachCount                               = map[string]int{}
		oblCount                                 = map[string]int{}
	)
	exit := 0
	for _, r := range results {
		paths += r.Out.Paths
		forks += r.Out.Forks
		genericity += r.Out.Genericity
		for k, v := range r.Stats {
			switch x := v.(type) {
			case int:
				queries[k] += float64(x)
			case float64:
				queries[k] += x
			}
		}
		if r.Out.Inconclusive != "" {
			inconclusive = append(inconclusive, r.c.ID+": "+r.Out.Inconclusive)
		}
		ids := make([]string, 0, len(r.Out.Obligations))
		for id := range r.Out.Obligations {
			ids = append(ids, id)
		}
		sort.Strings(ids)
		for _, id := range ids {
			o := r.Out.Obligations[id]
			nObl++
			if strings.HasPrefix(id, "reach:") {
				reachCount[trunc(strings.TrimPrefix(id, "reach:"), 60)]++
			} else {
				oblCount[id]++
			}
			switch o.Status {
			case symalg.StValid:
				nValid++
				if o.Queries > 0 || o.Kind == "concrete" {
					distinct[r.c.ID+"#"+id] = true
				}
			case symalg.StWitnessed:
				nWitnessed++
				distinct[r.c.ID+"#"+id] = true
			case symalg.StViolated:
				nViol++
			case symalg.StInconclusive:
				nInconc++
				inconclusive = append(inconclusive, r.c.ID+"#"+id+": "+o.Reason)
				if strings.HasPrefix(o.Reason, "ENGINE-MISMATCH") {
					rawMismatch++
				}
			}
		}
		if r.Concrete != nil {
			concreteRuns++
			for oid, o := range r.Concrete.Obligations {
				if strings.HasPrefix(oid, "concrete:") {
					concreteSpot++
				}
				if o.Status == symalg.StViolated {
					if strings.HasPrefix(oid, "concrete:") {
						// a clause that exists only in concrete mode failed natively: a real, replayable violation
						rp := replayResult{Obligation: oid, Case: r.CaseID, Modulus: r.Modulus, Model: map[string]string{"__seed__": fmt.Sprint(cfg.Seed + 7)}, ModelRepro: true, RealRepro: "n/a", Reason: o.Reason}
						rp.File = writeReplay(cfg, rp)
						violations = append(violations, rp)
					} else {
						concreteFail++
					}
				}
			}
		}
		for _, rp := range r.Replays {
			if rp.ModelRepro && rp.RealRepro != "no" {
				violations = append(violations, rp)
			} else {
				mismatches = append(mismatches, rp)
			}
		}
		if len(samples) < 6 {
			s := map[string]any{"case": r.c.ID, "modulus": r.Modulus, "config": r.c.Desc, "paths": r.Out.Paths, "vars": r.Out.Vars}
			obl := map[string]string{}
			for _, id := range ids {
				obl[id] = string(r.Out.Obligations[id].Status)
			}
			s["obligations"] = obl
			samples = append(samples, s)
		}
	}

	// report violations
	unlisted := 0
	var knownLines []string
	for _, v := range violations {
		key := v.Case + "#" + v.Obligation
		listed := false
		for _, k := range known {
			if k.Property == cfg.Property && k.Status == "known" {
				if ok, _ := regexp.MatchString(k.Match, key); ok {
					listed = true
					knownLines = append(knownLines, fmt.Sprintf("KNOWN-FINDING: property=%s %s (%s)", cfg.Property, k.What, key))
					break
				}
			}
		}
		if !listed {
			unlisted++
			fmt.Printf("VIOLATION property=%s replay=%s\n", cfg.Property, v.File)
			fmt.Printf("  case=%s obligation=%s reason=%s\n", v.Case, v.Obligation, strings.SplitN(v.Reason, "\n", 2)[0])
		}
	}
	sort.Strings(knownLines)
	prev := ""
	for _, l := range knownLines {
		if l != prev {
			fmt.Println(l)
		}
		prev = l
	}
	if unlisted > 0 {
		exit = 1
	}
	if rawMismatch > 0 {
		fmt.Printf("ENGINE-MISMATCH property=%s: %d obligations whose raw-term re-check contradicts the normal-form verdict\n", cfg.Property, rawMismatch)
		if exit == 0 {
			exit = 2
		}
	}
	if len(mismatches) > 0 || concreteFail > 0 {
		for _, m := range mismatches {
			fmt.Printf("ENGINE-MISMATCH property=%s case=%s obligation=%s (model=%v real=%s): %s\n", cfg.Property, m.Case, m.Obligation, m.ModelRepro, m.RealRepro, strings.SplitN(m.Reason, "\n", 2)[0])
		}
		if concreteFail > 0 {
			fmt.Printf("ENGINE-MISMATCH property=%s: %d obligations fail in a concrete-model validation run although the symbolic run proved them\n", cfg.Property, concreteFail)
		}
		if exit == 0 {
			exit = 2
		}
	}
	for _, s := range inconclusive {
		fmt.Printf("INCONCLUSIVE property=%s %s\n", cfg.Property, trunc(s, 300))
	}

	// evidence
	ev := map[string]any{
		"property_id": cfg.Property,
		"tier":        cfg.Tier,
		"seed":        cfg.Seed,
		"level":       "model_checking",
		"wall_s":      time.Since(t0).Seconds(),
		"violations":  unlisted,
		"assumptions": cfg.Assumes,
		"coverage": map[string]any{
			"states":                        paths,
			"transitions":                   int(queries["decide_queries"]) + int(queries["valid_queries"]) + nWitnessed + forks,
			"traces_validated_against_impl": concreteRuns,
			"evaluations":                   int(queries["sat"] + queries["unsat"] + queries["unknown"] + queries["raw_checks"]),
			"distinct_nontrivial":           len(distinct),
			"rule":                          "one evaluation = one SMT query (branch-feasibility, validity or witness query); a case is one concrete configuration (policy, IDs, quorum, shapes, deviator) inside which every field/group value is a symbolic variable mod the real group order; an obligation counts as distinct non-trivial when it is a different (case, assertion id) pair that needed at least one solver query or is a per-path concrete check",
			"samples":                       samples,
			"obligations":                   nObl,
			"discharged":                    nValid + nWitnessed,
			"obligations_valid":             nValid,
			"valid_checks_discharged_by_solver_query":     int(queries["valid_queries"]),
			"valid_checks_reduced_to_true_by_normal_form": int(queries["syntactic_valid"]),
			"raw_form_rechecks":                           int(queries["raw_checks"]),
			"raw_form_rechecks_confirmed_unsat_by_solver": int(queries["raw_confirmed"]),
			"raw_form_rechecks_unknown":                   int(queries["raw_unknown"]),
			"raw_form_rechecks_disagreeing":               int(queries["raw_disagree"]),
			"obligations_witnessed":                       nWitnessed,
			"obligations_violated":                        nViol,
			"obligations_inconclusive":                    nInconc,
			"inconclusive":                                inconclusive,
			"cases":                                       len(jobs),
			"symbolic_paths":                              paths,
			"forks":                                       forks,
			"genericity_assumptions":                      genericity,
			"moduli":                                      cfg.Moduli,
			"queries":                                     queries,
			"solver_time_s":                               queries["solver_s"],
			"concrete_validation_runs":                    concreteRuns,
			"concrete_validation_failures":                concreteFail,
			"concrete_only_spot_checks":                   concreteSpot,
			"functions_encoded":                           cfg.Functions,
			"bounds":                                      cfg.Bounds,
			"outside_claim":                               cfg.Outside,
			"engine":                                      "E2 symgen: native execution of the library's generic code instantiated with SMT-term-valued field/group types; branches and assertions decided by " + cfg.Solver,
			"checker_cmd":                                 fmt.Sprintf("./check %s %s", cfg.Property, cfg.Tier),
			"trusted_base":                                []string{"z3 (and cvc5/z3-new when cross-checking)", "symalg polynomial normal form (validated by concrete-model runs)", "Go compiler/runtime", "isomorphism prime-order group ≅ (Z/q,+)", "random-oracle idealisation where an obligation crosses a hash"},
			"known_findings_reported":                     len(knownLines),
			"reach_markers_cases":                         reachCount,
			"obligation_ids_cases":                        oblCount,
			"engine_mismatches":                           len(mismatches),
			"exhaustive":                                  false,
		},
	}
	evDir := filepath.Join(cfg.VerifDir, "evidence")
	_ = os.MkdirAll(evDir, 0o755)
	b, _ := json.MarshalIndent(ev, "", " ")
	if err := os.WriteFile(filepath.Join(evDir, cfg.Property+".json"), b, 0o644); err != nil {
		fmt.Println("cannot write evidence:", err)
		return 2
	}
	fmt.Printf("SUMMARY property=%s tier=%s cases=%d paths=%d obligations=%d valid=%d witnessed=%d violated=%d inconclusive=%d queries(sat/unsat/unknown)=%d/%d/%d solver_s=%.1f wall_s=%.1f exit=%d\n",
		cfg.Property, cfg.Tier, len(jobs), paths, nObl, nValid, nWitnessed, nViol, nInconc,
		int(queries["sat"]), int(queries["unsat"]), int(queries["unknown"]), queries["solver_s"], time.Since(t0).Seconds(), exit)
	return exit
}

func trunc(s string, n int) string {
	if len(s) > n {
		return s[:n] + "…"
	}
	return s
}

func runCase(cfg Config, c Case, modulus string) *caseResult {
	t0 := time.Now()
	res := &caseResult{c: c, CaseID: c.ID, Modulus: modulus}
	q := symalg.ModulusByName(modulus)
	eng, err := symalg.NewEngine(symalg.Options{Q: q, SolverName: cfg.Solver, CrossSolver: cfg.Cross, TimeoutMs: cfg.TimeoutMs, Seed: cfg.Seed})
	if err != nil {
		res.Out = &symalg.Outcome{Name: c.ID, Obligations: map[string]*symalg.Obligation{}, Inconclusive: "cannot start solver: " + err.Error()}
		return res
	}
	defer eng.Close()
	res.Out = eng.Explore(c.ID, func(r *symalg.Run) { c.Sym(&SymEnv{R: r}) })
	res.Stats = eng.SolverStats()

	for _, mr := range c.MustReach {
		if _, ok := res.Out.Obligations["reach:"+mr]; !ok && res.Out.Inconclusive == "" {
			res.Out.Obligations["reach:"+mr] = &symalg.Obligation{ID: "reach:" + mr, Kind: "reach", Status: symalg.StViolated,
				Reason: "required reachability marker never reached on any feasible path (vacuous harness or the operation always fails)"}
		}
	}
	// vacuity: every harness must reach at least one obligation
	if len(res.Out.Obligations) == 0 && res.Out.Inconclusive == "" {
		res.Out.Inconclusive = "vacuous: no obligation reached"
	}

	// replay every violated obligation
	anyViol := false
	for id, o := range res.Out.Obligations {
		if o.Status != symalg.StViolated {
			continue
		}
		anyViol = true
		rp := replayResult{Obligation: id, Case: c.ID, Modulus: modulus, Model: o.Model, Reason: o.Reason, RealRepro: "n/a"}
		rp.ModelRepro = replayModel(cfg, c, q, id, o.Model)
		if !rp.ModelRepro {
			// concrete replay search (DESIGN §5): the path may depend on hash-derived constants that a
			// concrete run does not reproduce bit for bit; a genuine defect typically fails for generic
			// inputs, so seeded concrete runs are tried. A native failure is a real, replayable violation.
			for sd := int64(1); sd <= 8 && !rp.ModelRepro; sd++ {
				m := map[string]string{"__seed__": fmt.Sprint(cfg.Seed*1000 + sd)}
				if replayModel(cfg, c, q, id, m) {
					rp.ModelRepro = true
					rp.Model = m
					o.Model = m
				}
			}
		}
		if !rp.ModelRepro {
			// last resort: the same replay in a FRESH process. Library code with process-wide state
			// (a package-level cache, a sync.Once) behaves differently in a process that has already
			// run the harness symbolically; a defect that lives in such state reproduces only from a
			// clean start.
			for _, m := range []map[string]string{o.Model, {"__seed__": fmt.Sprint(cfg.Seed*1000 + 1)}} {
				if replayFresh(cfg, replayResult{Obligation: id, Case: c.ID, Modulus: modulus, Model: m, Reason: o.Reason, RealRepro: "n/a"}) {
					rp.ModelRepro = true
					if m != nil {
						rp.Model = m
						o.Model = m
					}
					break
				}
			}
		}
		if c.Real != nil && modulus == "secp256k1" && o.Model != nil {
			if replayReal(c, id, o.Model) {
				rp.RealRepro = "yes"
			} else {
				rp.RealRepro = "no"
			}
		}
		if rp.ModelRepro && rp.RealRepro != "no" {
			rp.File = writeReplay(cfg, rp)
		}
		res.Replays = append(res.Replays, rp)
	}

	// differential validation: the same harness on a seeded concrete assignment must satisfy every
	// obligation natively (only meaningful when the symbolic run found no violation)
	if !anyViol && !c.NoConcreteValidation && res.Out.Inconclusive == "" {
		ce, _ := symalg.NewEngine(symalg.Options{Q: q, Seed: cfg.Seed + 7, Concrete: map[string]*big.Int{}})
		res.Concrete = ce.Explore(c.ID, func(r *symalg.Run) { c.Sym(&SymEnv{R: r}) })
	}
	res.Wall = time.Since(t0).Seconds()
	return res
}

func modelBig(m map[string]string) map[string]*big.Int {
	out := map[string]*big.Int{}
	for k, v := range m {
		if x, ok := new(big.Int).SetString(v, 10); ok {
			out[k] = x
		}
	}
	return out
}

// replayModel re-runs the harness natively with the model algebra in concrete mode under the
// solver's assignment; the obligation must fail there.
func replayModel(cfg Config, c Case, q *big.Int, obligation string, model map[string]string) bool {
	if model == nil {
		if obligation == "" {
			return false
		}
		model = map[string]string{}
	}
	seed := cfg.Seed
	if sv, ok := model["__seed__"]; ok {
		fmt.Sscan(sv, &seed)
	}
	ce, _ := symalg.NewEngine(symalg.Options{Q: q, Seed: seed, Concrete: modelBig(model), ReplayWitness: true})
	out := ce.Explore(c.ID, func(r *symalg.Run) { c.Sym(&SymEnv{R: r}) })
	if o, ok := out.Obligations[obligation]; ok && o.Status == symalg.StViolated {
		return true
	}
	return false
}

func writeReplay(cfg Config, rp replayResult) string {
	dir := filepath.Join(cfg.VerifDir, "replays", cfg.Property)
	_ = os.MkdirAll(dir, 0o755)
	h := sha256.Sum256([]byte(rp.Case + "#" + rp.Obligation + "@" + rp.Modulus))
	p := filepath.Join(dir, hex.EncodeToString(h[:6])+".json")
	b, _ := json.MarshalIndent(map[string]any{"property": cfg.Property, "engine": "E2", "replay": rp,
		"how": fmt.Sprintf("./check %s --replay %s", cfg.Property, p)}, "", " ")
	_ = os.WriteFile(p, b, 0o644)
	return p
}

// replayFresh runs the replay of rp in a new process of this binary (see the call site).
func replayFresh(cfg Config, rp replayResult) bool {
	exe, err := os.Executable()
	if err != nil {
		return false
	}
	dir, err := os.MkdirTemp(filepath.Join(cfg.VerifDir, "work"), "fresh-replay-")
	if err != nil {
		return false
	}
	defer os.RemoveAll(dir)
	p := filepath.Join(dir, "replay.json")
	b, _ := json.Marshal(map[string]any{"property": cfg.Property, "engine": "E2", "replay": rp})
	if os.WriteFile(p, b, 0o644) != nil {
		return false
	}
	cmd := exec.Command(exe, "-property", cfg.Property, "-tier", cfg.Tier, "-verif", cfg.VerifDir, "-replay", p)
	cmd.Env = append(os.Environ(), "GOMAXPROCS=1")
	out, _ := cmd.CombinedOutput()
	return strings.Contains(string(out), "concrete model run reproduces=true")
}

// ReplayFile re-runs a recorded counterexample (concrete model, and real secp256k1 when the case
// has a real instantiation) and prints what happens. Returns 1 if it reproduces.
func ReplayFile(cfg Config, cases []Case, path string) int {
	b, err := os.ReadFile(path)
	if err != nil {
		fmt.Println(err)
		return 2
	}
	var f struct {
		Replay replayResult `json:"replay"`
	}
	if err := json.Unmarshal(b, &f); err != nil {
		fmt.Println(err)
		return 2
	}
	for _, c := range cases {
		if c.ID != f.Replay.Case {
			continue
		}
		q := symalg.ModulusByName(f.Replay.Modulus)
		m := replayModel(cfg, c, q, f.Replay.Obligation, f.Replay.Model)
		fmt.Printf("replay case=%s obligation=%s: concrete model run reproduces=%v\n", c.ID, f.Replay.Obligation, m)
		if c.Real != nil && f.Replay.Modulus == "secp256k1" {
			fmt.Printf("replay on real secp256k1 reproduces=%v\n", replayReal(c, f.Replay.Obligation, f.Replay.Model))
		}
		if m {
			return 1
		}
		return 0
	}
	fmt.Println("case not found:", f.Replay.Case)
	return 2
}

// runSharded distributes the jobs over single-threaded child processes (GOMAXPROCS=1: the library's
// own goroutines — sigand runs sub-protocols in an errgroup — then interleave deterministically, a
// crash is contained, and decoders can find the active run through a process-wide pointer).
func runSharded(cfg Config, njobs int, results []*caseResult) {
	n := cfg.Workers
	if n > njobs {
		n = njobs
	}
	if n < 1 {
		n = 1
	}
	dir, err := os.MkdirTemp(filepath.Join(cfg.VerifDir, "work"), "e2-")
	if err != nil {
		_ = os.MkdirAll(filepath.Join(cfg.VerifDir, "work"), 0o755)
		dir, err = os.MkdirTemp(filepath.Join(cfg.VerifDir, "work"), "e2-")
		if err != nil {
			fmt.Println("cannot create work dir:", err)
			return
		}
	}
	defer os.RemoveAll(dir)
	var wg sync.WaitGroup
	for k := 0; k < n; k++ {
		wg.Add(1)
		go func(k int) {
			defer wg.Done()
			out := filepath.Join(dir, fmt.Sprintf("shard%d.jsonl", k))
			args := []string{"-property", cfg.Property, "-tier", cfg.Tier, "-solver", cfg.Solver, "-verif", cfg.VerifDir,
				"-child", "-shard", fmt.Sprintf("%d/%d", k, n), "-out", out, "-timeout-ms", fmt.Sprint(cfg.TimeoutMs)}
			if cfg.Cross != "" {
				args = append(args, "-cross", cfg.Cross)
			}
			if cfg.OnlyCase != "" {
				args = append(args, "-only", cfg.OnlyCase)
			}
			cmd := exec.Command(os.Args[0], args...)
			cmd.Env = append(os.Environ(), "GOMAXPROCS=1", fmt.Sprintf("VERIF_SEED=%d", cfg.Seed))
			var stderr strings.Builder
			cmd.Stderr = &stderr
			cmd.Stdout = &stderr
			runErr := cmd.Run()
			b, _ := os.ReadFile(out)
			for _, line := range strings.Split(string(b), "\n") {
				if strings.TrimSpace(line) == "" {
					continue
				}
				var r caseResult
				if json.Unmarshal([]byte(line), &r) == nil && r.Job >= 0 && r.Job < njobs {
					rr := r
					results[r.Job] = &rr
				}
			}
			if runErr != nil {
				tail := stderr.String()
				if len(tail) > 1500 {
					tail = tail[len(tail)-1500:]
				}
				// the first unfinished job of this shard is the one that crashed the child
				for i := k; i < njobs; i += n {
					if results[i] == nil {
						results[i] = &caseResult{Job: i, Out: &symalg.Outcome{Obligations: map[string]*symalg.Obligation{}, Inconclusive: "worker process crashed: " + runErr.Error() + ": " + tail}}
						break
					}
				}
			}
		}(k)
	}
	wg.Wait()
}
