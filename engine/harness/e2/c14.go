package e2

import (
	"fmt"
	"math/big"
	"math/rand"

	aimpl "github.com/bronlabs/bron-crypto/pkg/base/algebra/impl"
	"github.com/bronlabs/bron-crypto/pkg/base/ct"

	"verif/engine/symalg"
)

// lowG adapts the model group to the library's LOW-LEVEL group-element interface
// (impl.GroupElementLowLevel), so that the real generic scalar-multiplication skeletons
// ScalarMulLowLevel / MultiScalarMulLowLevel (shared by every curve of the library) run natively
// over SMT-term-valued points.
type lowG struct{ g *symalg.G }

var lowIdentity func() *symalg.G // set per run (the engine serialises runs inside one process)

func (p *lowG) get() *symalg.G {
	if p.g == nil {
		return lowIdentity()
	}
	return p.g
}
func (p *lowG) Set(v *lowG)             { p.g = v.get() }
func (p *lowG) Add(l, r *lowG)          { p.g = l.get().Op(r.get()) }
func (p *lowG) Sub(l, r *lowG)          { p.g = l.get().Sub(r.get()) }
func (p *lowG) Neg(v *lowG)             { p.g = v.get().Neg() }
func (p *lowG) Double(v *lowG)          { p.g = v.get().Double() }
func (p *lowG) SetZero()                { p.g = lowIdentity() }
func (p *lowG) Bytes() []byte           { return p.get().Bytes() }
func (p *lowG) SetBytes([]byte) ct.Bool { panic("lowG.SetBytes: not used by the skeletons") }
func (p *lowG) Select(c ct.Choice, x0, x1 *lowG) {
	if c == 0 {
		p.g = x0.get()
	} else {
		p.g = x1.get()
	}
}
func (p *lowG) Equal(r *lowG) ct.Bool {
	if p.get().Equal(r.get()) {
		return ct.True
	}
	return ct.False
}
func (p *lowG) IsZero() ct.Bool {
	g := p.get()
	if g.IsSymbolic() {
		// genericity: a bucket that received symbolic points is treated as non-identity (otherwise the
		// bucket loop forks once per non-empty bucket). The branch taken is the one real executions
		// take for all points outside a measure-zero set; the final identity is then proved for the
		// resulting term without using the assumption as a hypothesis. Stated in the evidence.
		return ct.False
	}
	if g.IsOpIdentity() {
		return ct.True
	}
	return ct.False
}
func (p *lowG) IsNonZero() ct.Bool { return p.IsZero() ^ 1 }

// scalarCorpus: little-endian scalar byte strings that exercise every window position: full-width
// random values, all-ones, single high bits, short scalars.
func scalarCorpus(rng *rand.Rand, n, width int) [][]byte {
	out := make([][]byte, n)
	for i := range out {
		b := make([]byte, width)
		switch i % 7 {
		case 0, 1, 2, 3:
			rng.Read(b)
		case 4:
			for k := range b {
				b[k] = 0xff
			}
		case 5:
			b[width-1] = 0x80
			b[rng.Intn(width)] |= byte(1 << uint(rng.Intn(8)))
		case 6:
			rng.Read(b[:1+rng.Intn(width)])
		}
		out[i] = b
	}
	return out
}

func leInt(b []byte) *big.Int {
	r := make([]byte, len(b))
	for i := range b {
		r[len(b)-1-i] = b[i]
	}
	return new(big.Int).SetBytes(r)
}

// c14MSM: MultiScalarMulLowLevel over n SYMBOLIC points and a corpus of concrete scalars equals
// Σ kᵢ·Pᵢ; ScalarMulLowLevel of each (kᵢ, Pᵢ) equals kᵢ·Pᵢ.
func c14MSM(env *SymEnv, n, width int, seed int64) {
	group := env.R.Group()
	lowIdentity = func() *symalg.G { return group.OpIdentity() }
	rng := rand.New(rand.NewSource(seed + int64(n)*131 + int64(width)))
	scalars := scalarCorpus(rng, n, width)
	pts := make([]*lowG, n)
	want := group.OpIdentity()
	for i := range pts {
		P := env.Point(fmt.Sprintf("P%d", i))
		pts[i] = &lowG{g: P}
		want = want.Op(P.ScalarOp(env.Const(leInt(scalars[i]))))
	}
	var out lowG
	_, err := guarded(func() (struct{}, error) {
		aimpl.MultiScalarMulLowLevel[*lowG](&out, pts, scalars)
		return struct{}{}, nil
	})
	if !env.Check(fmt.Sprintf("C14.c/msm[n=%d]: no panic", n), err == nil, fmt.Sprint(err)) {
		return
	}
	env.Valid(fmt.Sprintf("C14.c/MultiScalarMul over %d symbolic points = Σ kᵢ·Pᵢ", n), env.EqG(out.get(), want))
	// single scalar multiplications (window table of 16 entries, nibble order)
	lim := n
	if lim > 12 {
		lim = 12
	}
	var eqs []symalg.Pred
	for i := 0; i < lim; i++ {
		var r lowG
		aimpl.ScalarMulLowLevel[*lowG](&r, pts[i], scalars[i])
		eqs = append(eqs, env.EqG(r.get(), pts[i].g.ScalarOp(env.Const(leInt(scalars[i])))))
	}
	env.Valid(fmt.Sprintf("C14.c/ScalarMul of a symbolic point by %d corpus scalars = k·P", lim), symalg.And(eqs...))
	env.Reach("msm-done")
}

// C14Cases (E2 part of C14: the scalar-multiplication skeletons).
func C14Cases(tier string, seed int64) []Case {
	var cases []Case
	ns := []int{1, 2, 7, 8, 9, 16, 33, 100, 255, 256, 600, 1023, 1024, 1100}
	if tier == "thorough" {
		ns = append(ns, 2047, 2048, 3000, 4096, 5000)
	}
	for _, n := range ns {
		for _, width := range []int{32, 5} {
			if width == 5 && n > 300 {
				continue
			}
			nn, ww := n, width
			cases = append(cases, Case{ID: fmt.Sprintf("C14/msm/n=%d/scalar-bytes=%d", n, width),
				Desc: map[string]any{"points": "symbolic", "n": n, "scalars": fmt.Sprintf("corpus of %d-byte little-endian values (random full-width, all-ones, single high bits, short)", width)},
				Sym:  func(e *SymEnv) { c14MSM(e, nn, ww, seed) }, MustReach: []string{"msm-done"}, NoConcreteValidation: n > 300})
		}
	}
	return cases
}
