package e2

import (
	"crypto/sha256"
	"crypto/sha512"
	"fmt"
	"strings"

	"github.com/bronlabs/bron-crypto/pkg/base/algebra"
	ds "github.com/bronlabs/bron-crypto/pkg/base/datastructures"
	"github.com/bronlabs/bron-crypto/pkg/base/datastructures/hashmap"
	"github.com/bronlabs/bron-crypto/pkg/mpc"
	"github.com/bronlabs/bron-crypto/pkg/mpc/dkg/trusteddealer"
	"github.com/bronlabs/bron-crypto/pkg/mpc/sharing"
	"github.com/bronlabs/bron-crypto/pkg/mpc/sharing/accessstructures"
	"github.com/bronlabs/bron-crypto/pkg/mpc/sharing/accessstructures/unanimity"
	"github.com/bronlabs/bron-crypto/pkg/mpc/sharing/vss/feldman"
	"github.com/bronlabs/bron-crypto/pkg/mpc/signatures/schnorr/lindell22"
	"github.com/bronlabs/bron-crypto/pkg/mpc/signatures/schnorr/lindell22/keygen"
	"github.com/bronlabs/bron-crypto/pkg/mpc/signatures/schnorr/lindell22/signing"
	"github.com/bronlabs/bron-crypto/pkg/mpc/zero/przs"
	"github.com/bronlabs/bron-crypto/pkg/proofs/sigma/compiler/fiatshamir"
	"github.com/bronlabs/bron-crypto/pkg/signatures/schnorrlike"
	vanilla "github.com/bronlabs/bron-crypto/pkg/signatures/schnorrlike/schnorr"

	"verif/engine/symalg"
)

// lindellTamper lets C04 alter messages of the signing protocol in flight.
type lindellTamper[E algebra.PrimeGroupElement[E, S], S algebra.PrimeFieldElement[S]] struct {
	PSig func(sender sharing.ID, p *lindell22.PartialSignature[E, S]) *lindell22.PartialSignature[E, S]
	R2B  func(sender sharing.ID, m *signing.Round2Broadcast[E, S, vanilla.Message]) *signing.Round2Broadcast[E, S, vanilla.Message]
	R1B  func(sender sharing.ID, m *signing.Round1Broadcast[E, S, vanilla.Message]) *signing.Round1Broadcast[E, S, vanilla.Message]
	R1U  func(sender, rcpt sharing.ID, m *signing.Round1P2P[E, S, vanilla.Message]) *signing.Round1P2P[E, S, vanilla.Message]
	// Pre runs after round 3 (and PSig tampering), before any aggregator sees the partial signatures
	Pre func(psigs map[sharing.ID]*lindell22.PartialSignature[E, S])
}

type lindellResult[E algebra.PrimeGroupElement[E, S], S algebra.PrimeFieldElement[S]] struct {
	PSigs    map[sharing.ID]*lindell22.PartialSignature[E, S]
	Errs     map[sharing.ID]error
	Round    map[sharing.ID]int
	Sig      *schnorrlike.Signature[E, S] // from the non-cosigning aggregator
	SigErr   error
	CoSig    *schnorrlike.Signature[E, S] // from a cosigning aggregator (first quorum member)
	CoSigErr error
	Scheme   *vanilla.Scheme[E, S]
}

// runLindell22 signs msg with the given quorum, round by round, with the real library code.
func runLindell22[E algebra.PrimeGroupElement[E, S], S algebra.PrimeFieldElement[S]](env Env[E, S], tag string, shards map[sharing.ID]*mpc.BaseShard[E, S], quorum []sharing.ID, msg []byte, neg bool, tamper *lindellTamper[E, S]) (*lindellResult[E, S], error) {
	group := env.Group()
	scheme, err := vanilla.NewScheme[E, S](group, sha256.New, neg, false, nil, env.Reader(tag+"/scheme"))
	if err != nil {
		return nil, err
	}
	ctxs, err := makeContexts(tag, quorum)
	if err != nil {
		return nil, err
	}
	lshards := map[sharing.ID]*lindell22.Shard[E, S]{}
	cos := map[sharing.ID]*signing.Cosigner[E, S, vanilla.Message]{}
	for _, id := range quorum {
		ls, err := keygen.NewShard(shards[id])
		if err != nil {
			return nil, fmt.Errorf("NewShard(%d): %w", id, err)
		}
		lshards[id] = ls
		c, err := guarded(func() (*signing.Cosigner[E, S, vanilla.Message], error) {
			return signing.NewCosigner[E, S, vanilla.Message](ctxs[id], ls, fiatshamir.Name, scheme.Variant(), env.Reader(fmt.Sprintf("%s/cosigner%d", tag, id)))
		})
		if err != nil {
			return nil, fmt.Errorf("NewCosigner(%d): %w", id, err)
		}
		cos[id] = c
	}
	res := &lindellResult[E, S]{PSigs: map[sharing.ID]*lindell22.PartialSignature[E, S]{}, Errs: map[sharing.ID]error{}, Round: map[sharing.ID]int{}, Scheme: scheme}
	r1b := map[sharing.ID]*signing.Round1Broadcast[E, S, vanilla.Message]{}
	r1u := map[sharing.ID]ds.Map[sharing.ID, *signing.Round1P2P[E, S, vanilla.Message]]{}
	for _, id := range quorum {
		env.SetActor(fmt.Sprint(id))
		b, u, err := cos[id].Round1()
		if err != nil {
			res.Errs[id], res.Round[id] = err, 1
			return res, nil
		}
		if tamper != nil && tamper.R1B != nil {
			b = tamper.R1B(id, b)
		}
		if tamper != nil && tamper.R1U != nil && u != nil {
			u = mapUnicasts(u, func(rcpt sharing.ID, m *signing.Round1P2P[E, S, vanilla.Message]) *signing.Round1P2P[E, S, vanilla.Message] {
				return tamper.R1U(id, rcpt, m)
			})
		}
		r1b[id], r1u[id] = b, u
	}
	r2b := map[sharing.ID]*signing.Round2Broadcast[E, S, vanilla.Message]{}
	for _, id := range quorum {
		env.SetActor(fmt.Sprint(id))
		b, err := guarded(func() (*signing.Round2Broadcast[E, S, vanilla.Message], error) {
			return cos[id].Round2(othersOf(id, r1b), unicastsTo(id, r1u))
		})
		if err != nil {
			res.Errs[id], res.Round[id] = err, 2
			continue
		}
		if tamper != nil && tamper.R2B != nil {
			b = tamper.R2B(id, b)
		}
		r2b[id] = b
	}
	if len(res.Errs) > 0 {
		return res, nil
	}
	for _, id := range quorum {
		env.SetActor(fmt.Sprint(id))
		ps, err := cos[id].Round3(othersOf(id, r2b), vanilla.Message(msg))
		if err != nil {
			res.Errs[id], res.Round[id] = err, 3
			continue
		}
		if tamper != nil && tamper.PSig != nil {
			ps = tamper.PSig(id, ps)
		}
		res.PSigs[id] = ps
	}
	if len(res.Errs) > 0 {
		return res, nil
	}
	if tamper != nil && tamper.Pre != nil {
		tamper.Pre(res.PSigs)
	}
	all := hashmap.NewComparable[sharing.ID, *lindell22.PartialSignature[E, S]]()
	for id, p := range res.PSigs {
		all.Put(id, p)
	}
	env.SetActor("aggregator")
	agg, err := signing.NewAggregator(lshards[quorum[0]].PublicKeyMaterial(), scheme)
	if err != nil {
		return nil, fmt.Errorf("NewAggregator: %w", err)
	}
	res.Sig, res.SigErr = agg.Aggregate(all.Freeze(), vanilla.Message(msg))
	cagg, err := signing.NewCosigningAggregator(cos[quorum[0]], lshards[quorum[0]].PublicKeyMaterial(), scheme)
	if err != nil {
		return nil, fmt.Errorf("NewCosigningAggregator: %w", err)
	}
	res.CoSig, res.CoSigErr = cagg.Aggregate(all.Freeze(), vanilla.Message(msg))
	return res, nil
}

func isRetryAbort(err error) bool {
	return err != nil && strings.Contains(fmt.Sprintf("%+v", err), "zero sharing must be retried")
}

// c01Lindell22: trusted-dealer shards over the model group, signing by a qualified quorum.
func c01Lindell22[E algebra.PrimeGroupElement[E, S], S algebra.PrimeFieldElement[S]](env Env[E, S], pol Policy, quorum []sharing.ID, msg string, neg bool) {
	env.AssumeDrawsNonZero()
	as, err := pol.Build()
	if err != nil {
		env.Reach("refused")
		return
	}
	group := env.Group()
	f := env.Field()
	g := group.Generator()
	dealt, err := guarded(func() (ds.Map[sharing.ID, *mpc.BaseShard[E, S]], error) {
		return trusteddealer.Deal(group, as, env.Reader("dealer"))
	})
	if err != nil {
		env.Reach("refused")
		return
	}
	shards := map[sharing.ID]*mpc.BaseShard[E, S]{}
	for id, s := range dealt.Iter() {
		shards[id] = s
	}
	for _, id := range quorum {
		if _, ok := shards[id]; !ok {
			env.Reach("quorum-member-without-shard")
			return
		}
	}
	pk := shards[quorum[0]].PublicKeyValue()
	tag := "c01/" + pol.Name + "/" + setName(quorum)
	res, err := runLindell22(env, tag, shards, quorum, []byte(msg), neg, nil)
	if err != nil {
		env.Check("C01.c/setup", false, err.Error())
		return
	}
	for id, e := range res.Errs {
		if isRetryAbort(e) {
			env.Reach("measure-zero retry abort (effective partial public key is the identity)")
			return
		}
		env.Check("C01.c/no cosigner aborts", false, fmt.Sprintf("cosigner %d aborted in round %d: %v", id, res.Round[id], e))
	}
	if len(res.Errs) > 0 {
		return
	}
	// sums of the partial signatures (what any aggregator must output)
	sumS := f.Zero()
	sumR := group.OpIdentity()
	for _, id := range quorum {
		sumS = sumS.Add(res.PSigs[id].Sig.S)
		sumR = sumR.Op(res.PSigs[id].Sig.R)
	}
	outOfRange := symalg.Or(env.EqF(sumS, f.Zero()), env.EqG(sumR, group.OpIdentity()))
	// a cosigning aggregator verifies every partial signature first and also refuses a zero partial
	// response (the verifier's range check)
	partialOut := []symalg.Pred{outOfRange}
	for _, id := range quorum {
		partialOut = append(partialOut, env.EqF(res.PSigs[id].Sig.S, f.Zero()))
	}
	for name, pair := range map[string]struct {
		sig *schnorrlike.Signature[E, S]
		err error
	}{"aggregator": {res.Sig, res.SigErr}, "cosigning-aggregator": {res.CoSig, res.CoSigErr}} {
		if pair.err != nil {
			// the only legitimate refusal: aggregated response or nonce commitment out of range
			if name == "aggregator" {
				env.Valid("C01.c/aggregator refuses ⇒ aggregated s = 0 or R = identity", outOfRange)
			} else {
				env.Valid("C01.c/cosigning aggregator refuses ⇒ some (partial or aggregated) response is 0 or R = identity", symalg.Or(partialOut...))
			}
			continue
		}
		env.Reach("signed by " + name)
		sig := pair.sig
		e, cerr := res.Scheme.Variant().ComputeChallenge(sig.R, pk, vanilla.Message(msg))
		if !env.Check("C01.c/challenge-ok", cerr == nil, fmt.Sprint(cerr)) {
			continue
		}
		rhs := pk.ScalarOp(e)
		if neg {
			rhs = rhs.OpInv()
		}
		env.Valid("C01.c/"+name+": s·G = R ± e·PK (independent verification equation)", env.EqG(g.ScalarOp(sig.S), sig.R.Op(rhs)))
		env.Valid("C01.c/"+name+": signature = (ΣR_i, Σs_i)", symalg.And(env.EqF(sig.S, sumS), env.EqG(sig.R, sumR)))
		ver, verr := res.Scheme.Verifier()
		if env.Check("C01.c/verifier-ok", verr == nil, fmt.Sprint(verr)) {
			pko, _ := vanilla.NewPublicKey[E, S](pk)
			env.Check("C01.c/"+name+": library single-party verifier accepts", ver.Verify(sig, pko, vanilla.Message(msg)) == nil, "library verifier rejects the threshold signature")
		}
	}
	if res.SigErr == nil && res.CoSigErr == nil {
		env.Valid("C01.c/all aggregators output the same signature", symalg.And(env.EqF(res.Sig.S, res.CoSig.S), env.EqG(res.Sig.R, res.CoSig.R)))
	}
}

// c01Additive: the two conversions every signing protocol starts from — scalar shares to additive
// shares summing to the secret, lifted (public) shares to additive shares summing to the public key —
// and PRZS blinding, over every qualified quorum (minimal and with one extra member).
func c01Additive[E algebra.PrimeGroupElement[E, S], S algebra.PrimeFieldElement[S]](env Env[E, S], pol Policy) {
	as, err := pol.Build()
	if err != nil {
		env.Reach("refused")
		return
	}
	group := env.Group()
	f := env.Field()
	scheme, err := guarded(func() (*feldman.Scheme[E, S], error) { return feldman.NewScheme(group, as) })
	if err != nil {
		env.Reach("refused")
		return
	}
	out, secret, err := scheme.DealRandom(env.Reader("dealer"))
	if !env.Check("C01.a/deal-ok", err == nil, fmt.Sprint(err)) {
		return
	}
	env.Reach("dealt")
	pk := group.Generator().ScalarOp(secret.Value())
	ldf, err := feldman.NewLiftedDealerFunc(out.VerificationMaterial(), scheme.MSP())
	if !env.Check("C01.a/lifted-dealer-func", err == nil, fmt.Sprint(err)) {
		return
	}
	for _, Q := range quorumsOf(as, pol.IDs) {
		qn := setName(Q)
		complete := true
		for _, id := range Q {
			if _, ok := out.Shares().Get(id); !ok {
				complete = false
			}
		}
		if !complete {
			continue
		}
		ac, err := unanimity.NewUnanimityAccessStructure(idSet(Q...))
		if err != nil {
			continue
		}
		sum := f.Zero()
		sumG := group.OpIdentity()
		ok := true
		for _, id := range Q {
			sh, _ := out.Shares().Get(id)
			a, err := scheme.ConvertShareToAdditive(sh, ac)
			if !env.Check("C01.a/convert-ok", err == nil, fmt.Sprintf("%d in %s: %v", id, qn, err)) {
				ok = false
				break
			}
			sum = sum.Add(a.Value())
			ls, err := ldf.ShareOf(id)
			if !env.Check("C01.a/lifted-share-ok", err == nil, fmt.Sprint(err)) {
				ok = false
				break
			}
			la, err := scheme.ConvertLiftedShareToAdditive(ls, ac)
			if !env.Check("C01.a/convert-lifted-ok", err == nil, fmt.Sprintf("%d in %s: %v", id, qn, err)) {
				ok = false
				break
			}
			sumG = sumG.Op(la.Value())
			env.Valid("C01.a/lifted additive share = [additive share]G", env.EqG(la.Value(), group.Generator().ScalarOp(a.Value())))
		}
		if !ok {
			continue
		}
		env.Valid("C01.a/Σ additive shares = secret", env.EqF(sum, secret.Value()))
		env.Valid("C01.a/Σ lifted additive shares = public key", env.EqG(sumG, pk))
		// blinding with pseudorandom zero shares of a session over the quorum
		if len(Q) >= 2 {
			ctxs, err := makeContexts("c01b/"+pol.Name+"/"+qn, Q)
			if env.Check("C01.b/contexts-ok", err == nil, fmt.Sprint(err)) {
				bsum := f.Zero()
				for _, id := range Q {
					sh, _ := out.Shares().Get(id)
					a, _ := scheme.ConvertShareToAdditive(sh, ac)
					z, err := przs.SampleZeroShare(ctxs[id], algebra.FiniteGroup[S](f))
					if !env.Check("C01.b/zero-share-ok", err == nil, fmt.Sprint(err)) {
						break
					}
					bsum = bsum.Add(a.Value().Add(z.Value()))
				}
				env.Valid("C01.b/Σ (additive share + zero share) = secret", env.EqF(bsum, secret.Value()))
			}
		}
	}
}

// quorumsOf: every minimal qualified set, and each of them extended by one further shareholder.
func quorumsOf(as accessstructures.Monotone, ids []sharing.ID) [][]sharing.ID {
	seen := map[string]bool{}
	var out [][]sharing.ID
	add := func(q []sharing.ID) {
		k := setName(q)
		if !seen[k] {
			seen[k] = true
			out = append(out, q)
		}
	}
	for _, m := range minimalQualified(as, ids) {
		add(m)
		for _, id := range ids {
			in := false
			for _, x := range m {
				if x == id {
					in = true
				}
			}
			if !in {
				add(append(append([]sharing.ID(nil), m...), id))
			}
		}
	}
	return out
}

// C01Cases builds the case list.
func C01Cases(tier string, seed int64) []Case {
	var cases []Case
	for _, pol := range smallPolicies(tier, seed, 8) {
		p := pol
		cases = append(cases, both("C01/additive/"+p.Name, map[string]any{"clause": "additive conversion + PRZS blinding", "policy": p.Name},
			func(e Env[*symalg.G, *symalg.F]) { c01Additive(e, p) }, nil))
	}
	msgs := []string{"", "threshold message"}
	for _, pol := range protocolPolicies(tier) {
		p := pol
		as, err := p.Build()
		if err != nil {
			continue
		}
		qs := quorumsOf(as, p.IDs)
		if tier != "thorough" && len(qs) > 3 {
			qs = qs[:3]
		}
		for qi, q := range qs {
			Q := q
			if len(Q) < 2 {
				continue
			}
			for mi, m := range msgs {
				if tier != "thorough" && (mi > 0 && qi > 0) {
					continue
				}
				for _, neg := range []bool{false, true} {
					if neg && (tier != "thorough" && (qi > 0 || mi > 0)) {
						continue
					}
					mm, ng := m, neg
					c := both(fmt.Sprintf("C01/lindell22/%s/quorum=%s/msg=%q/neg=%v", p.Name, setName(Q), mm, ng), map[string]any{"protocol": "lindell22 (vanilla Schnorr)", "policy": p.Name, "quorum": Q, "msg": mm, "negative-response": ng},
						func(e Env[*symalg.G, *symalg.F]) { c01Lindell22(e, p, Q, mm, ng) }, nil)
					c.MustReach = []string{"signed by aggregator", "signed by cosigning-aggregator"}
					cases = append(cases, c)
				}
			}
		}
	}
	// DKLs23 (bbot variant): one 2-party quorum of a 2-of-3 threshold structure (thorough: also a CNF
	// structure)
	{
		pol := thresholdPolicy(2, idPools[1][:3])
		q := sortedIDs(pol.IDs)[:2]
		cases = append(cases, Case{ID: fmt.Sprintf("C01/dkls23-bbot/%s/quorum=%s", pol.Name, setName(q)),
			Desc: map[string]any{"protocol": "dkls23 signing_bbot rounds 1-4", "suite hash": "SHA-512 (digest longer than the group order: leftmost-bits truncation)", "policy": pol.Name, "quorum": q, "randomness": "symbolic"},
			Sym:  func(e *SymEnv) { dklsHash = sha512.New; c01Dkls23(e, pol, q, []byte("dkls23 message")) }, MustReach: []string{"dkls23-done"}, NoConcreteValidation: true})
		cases = append(cases, Case{ID: fmt.Sprintf("C01/dkls23-softspoken/%s/quorum=%s", pol.Name, setName(q)),
			Desc: map[string]any{"protocol": "dkls23 signing_softspoken rounds 1-5", "policy": pol.Name, "quorum": q, "randomness": "symbolic"},
			Sym:  func(e *SymEnv) { dklsHash = sha256.New; c01Dkls23Soft(e, pol, q, []byte("dkls23 message")) }, MustReach: []string{"dkls23-softspoken-done"}, NoConcreteValidation: true})
		if tier == "thorough" {
			pol2 := cnfPolicy([]int{0b001, 0b110}, idPools[0][:3])
			q2 := sortedIDs(pol2.IDs)[:2]
			cases = append(cases, Case{ID: fmt.Sprintf("C01/dkls23-bbot/%s/quorum=%s", pol2.Name, setName(q2)),
				Desc: map[string]any{"protocol": "dkls23 signing_bbot rounds 1-4", "policy": pol2.Name, "quorum": q2, "randomness": "symbolic"},
				Sym:  func(e *SymEnv) { dklsHash = sha256.New; c01Dkls23(e, pol2, q2, []byte("dkls23 message")) }, MustReach: []string{"dkls23-done"}, NoConcreteValidation: true})
			// A 3-party quorum of the same structure is outside the bound: that run (three pairwise
			// multiplications per cosigner, every branch decided by the solver) did not finish one case
			// in 100 minutes; the 2-party quorums of two structures are what is claimed.
		}
	}
	cases = append(cases, c01BoldyrevaCases(tier)...)
	return cases
}
