package e2

import (
	"bytes"
	"encoding/hex"
	"fmt"
	"github.com/bronlabs/bron-crypto/pkg/proofs/sigma/compiler/fischlin"
	"github.com/bronlabs/bron-crypto/pkg/proofs/sigma/compiler/randfischlin"

	"github.com/bronlabs/bron-crypto/pkg/base/algebra"
	"github.com/bronlabs/bron-crypto/pkg/base/algebra/constructions"
	"github.com/bronlabs/bron-crypto/pkg/mpc/session"
	"github.com/bronlabs/bron-crypto/pkg/mpc/sharing"
	"github.com/bronlabs/bron-crypto/pkg/proofs/dlog/batch_schnorr"
	schnorrpok "github.com/bronlabs/bron-crypto/pkg/proofs/dlog/schnorr"
	"github.com/bronlabs/bron-crypto/pkg/proofs/okamoto"
	"github.com/bronlabs/bron-crypto/pkg/proofs/sigma"
	"github.com/bronlabs/bron-crypto/pkg/proofs/sigma/compiler"
	"github.com/bronlabs/bron-crypto/pkg/proofs/sigma/compiler/fiatshamir"
	"github.com/bronlabs/bron-crypto/pkg/proofs/sigma/compose/sigand"
	"github.com/bronlabs/bron-crypto/pkg/proofs/sigma/compose/sigor"

	"verif/engine/symalg"
)

// challenge corpus (16 bytes = the protocols' challenge length)
var c08Challenges = []string{
	"00000000000000000000000000000000",
	"00000000000000000000000000000001",
	"ffffffffffffffffffffffffffffffff",
	"8000000000000000000000000000000f",
	"3c1e0f8743a1d0e8743a1d0e87c3e1f0",
}

func chal(i int) sigma.ChallengeBytes {
	b, _ := hex.DecodeString(c08Challenges[i%len(c08Challenges)])
	return b
}

// fitChal adapts a corpus challenge to the protocol's challenge length.
func fitChal(e sigma.ChallengeBytes, n int) sigma.ChallengeBytes {
	out := make([]byte, n)
	for i := range out {
		out[i] = e[i%len(e)] ^ byte(i/len(e))
	}
	return out
}

// sigmaCore checks, for one sigma protocol instance with a VALID (statement, witness) pair whose
// witness is symbolic: completeness for every challenge of the corpus on every path, simulated
// transcripts verify, and a response altered by the protocol-specific tamper function is rejected.
func sigmaCore[X sigma.Statement, W sigma.Witness, A sigma.Commitment, S sigma.State, Z sigma.Response](
	env *SymEnv, pfx string, p sigma.Protocol[X, W, A, S, Z], x X, w W, tamper func(z Z, delta sF) []Z) {
	f := env.Field()
	env.Check(pfx+"/ValidateStatement accepts the valid pair", p.ValidateStatement(x, w) == nil, "valid statement/witness refused")
	delta := env.Scalar("delta")
	env.Assume(symalg.Not(env.EqF(delta, f.Zero())))
	for i := range c08Challenges {
		e := fitChal(chal(i), p.GetChallengeBytesLength())
		a, st, err := p.ComputeProverCommitment(x, w)
		if !env.Check(pfx+"/commit-ok", err == nil, fmt.Sprint(err)) {
			return
		}
		z, err := p.ComputeProverResponse(x, w, a, st, e)
		if !env.Check(pfx+"/response-ok", err == nil, fmt.Sprint(err)) {
			return
		}
		env.Check(pfx+"/completeness: honest transcript verifies (every path)", p.Verify(x, a, e, z) == nil, fmt.Sprintf("challenge %x rejected", e))
		// another challenge with the same (a,z): rejected unless the witness is trivial — only the
		// algebraic form: verify under e' ≠ e must not accept on any path where the witness ≠ 0 is assumed
		if tamper != nil {
			for k, zb := range tamper(z, delta) {
				env.Check(fmt.Sprintf("%s/response component %d shifted by δ≠0 is rejected", pfx, k), p.Verify(x, a, e, zb) != nil, "altered response accepted")
			}
		}
		as, zs, err := p.RunSimulator(x, e)
		if env.Check(pfx+"/simulator-ok", err == nil, fmt.Sprint(err)) {
			env.Check(pfx+"/simulated transcript verifies", p.Verify(x, as, e, zs) == nil, fmt.Sprintf("simulated transcript for challenge %x rejected", e))
		}
	}
	env.Reach(pfx + "/core-done")
}

// fsBinding: the Fiat–Shamir compilation of p: a proof verifies in the same session context and is
// rejected under another session, another transcript state, another prover label, another statement.
func fsBinding[X sigma.Statement, W sigma.Witness, A sigma.Commitment, S sigma.State, Z sigma.Response](
	env *SymEnv, pfx string, p sigma.Protocol[X, W, A, S, Z], x X, w W, other X) {
	niBinding(env, pfx, fiatshamir.Name, p, x, w, other)
}

// niBinding is fsBinding for any of the non-interactive compilers (Fiat–Shamir, Fischlin,
// randomised Fischlin): the compiled proof verifies in the same session context and is rejected
// under another session, transcript state, prover label or statement, and when truncated / extended.
func niBinding[X sigma.Statement, W sigma.Witness, A sigma.Commitment, S sigma.State, Z sigma.Response](
	env *SymEnv, pfx string, cname compiler.Name, p sigma.Protocol[X, W, A, S, Z], x X, w W, other X) {
	if cname != fiatshamir.Name {
		pfx = pfx + "[" + string(cname) + "]"
	}
	ni, err := compiler.Compile(cname, p, env.Reader(pfx+"/compiler"))
	if !env.Check(pfx+"/compile-ok", err == nil, fmt.Sprint(err)) {
		return
	}
	ids := []sharing.ID{1, 2}
	mk := func(tag string) *session.Context {
		c, err := makeContexts(tag, ids)
		if err != nil {
			panic(err)
		}
		return c[1]
	}
	base := mk("c08/" + pfx)
	label := func(c *session.Context, id uint64) *session.Context {
		cc := c.Clone()
		cc.Transcript().AppendBytes("prover-id", []byte{byte(id)})
		return cc
	}
	prover, err := ni.NewProver(label(base, 7))
	if !env.Check(pfx+"/prover-ok", err == nil, fmt.Sprint(err)) {
		return
	}
	proof, err := prover.Prove(x, w)
	if !env.Check(pfx+"/prove-ok", err == nil, fmt.Sprint(err)) {
		return
	}
	verify := func(c *session.Context, st X, pr compiler.NIZKPoKProof) error {
		v, err := ni.NewVerifier(c)
		if err != nil {
			return err
		}
		return v.Verify(st, pr)
	}
	env.Check(pfx+"/FS: proof verifies in the same context", verify(label(base, 7), x, proof) == nil, "honest proof rejected")
	env.Check(pfx+"/FS: rejected under another session", verify(label(mk("c08-other/"+pfx), 7), x, proof) != nil, "accepted under a different session")
	env.Check(pfx+"/FS: rejected under another prover identity", verify(label(base, 8), x, proof) != nil, "accepted under a different prover label")
	advanced := label(base, 7)
	advanced.Transcript().AppendBytes("something-else", []byte("x"))
	env.Check(pfx+"/FS: rejected under another transcript state", verify(advanced, x, proof) != nil, "accepted under a different transcript state")
	env.Check(pfx+"/FS: rejected for another statement", verify(label(base, 7), other, proof) != nil, "accepted for a different statement")
	// structure: truncated / extended / emptied proof bytes are rejected without panic
	if len(proof) > 2 {
		env.Check(pfx+"/FS: truncated proof rejected", noPanicErr(func() error { return verify(label(base, 7), x, proof[:len(proof)-1]) }) != nil, "truncated proof accepted")
		env.Check(pfx+"/FS: extended proof rejected", noPanicErr(func() error { return verify(label(base, 7), x, append(bytes.Clone(proof), 0)) }) != nil, "proof with a trailing byte accepted")
	}
	env.Check(pfx+"/FS: empty proof rejected", noPanicErr(func() error { return verify(label(base, 7), x, nil) }) != nil, "empty proof accepted")
	env.Reach(pfx + "/fs-done")
}

// c08Schnorr: dlog/schnorr (Maurer09 instance).
func c08Schnorr(env *SymEnv) {
	env.AssumeDrawsNonZero()
	group := env.R.Group()
	g := group.Generator()
	p, err := schnorrpok.NewProtocol[sG, sF](g, env.Reader("prover"))
	if !env.Check("C08.schnorr/protocol-ok", err == nil, fmt.Sprint(err)) {
		return
	}
	wv := env.Scalar("w")
	x := schnorrpok.NewStatement[sG, sF](g.ScalarOp(wv))
	w := schnorrpok.NewWitness(wv)
	sigmaCore(env, "C08.schnorr", p, x, w, func(z *schnorrpok.Response[sF], d sF) []*schnorrpok.Response[sF] {
		return []*schnorrpok.Response[sF]{{Z: z.Z.Add(d)}}
	})
	fsBinding(env, "C08.schnorr", p, x, w, schnorrpok.NewStatement[sG, sF](g.ScalarOp(wv.Add(env.Field().One()))))
	// wrong witness is refused by ValidateStatement
	delta := env.Scalar("delta")
	env.Check("C08.schnorr/ValidateStatement refuses a wrong witness", p.ValidateStatement(x, schnorrpok.NewWitness(wv.Add(delta))) != nil, "wrong witness accepted")
}

// c08SchnorrExtract: special soundness. Statement, commitment and both responses ARBITRARY; two
// distinct concrete challenges. Whenever Extract succeeds (both transcripts accepting) the witness
// it returns satisfies g^w = X.
func c08SchnorrExtract(env *SymEnv, i, j int) {
	group := env.R.Group()
	g := group.Generator()
	p, err := schnorrpok.NewProtocol[sG, sF](g, env.Reader("prover"))
	if !env.Check("C08.extract/protocol-ok", err == nil, fmt.Sprint(err)) {
		return
	}
	X := env.Point("X")
	A := env.Point("A")
	z1, z2 := env.Scalar("z1"), env.Scalar("z2")
	x := schnorrpok.NewStatement[sG, sF](X)
	w, err := p.Extract(x, &schnorrpok.Commitment[sG, sF]{A: A}, []sigma.ChallengeBytes{chal(i), chal(j)}, []*schnorrpok.Response[sF]{{Z: z1}, {Z: z2}})
	if err != nil {
		env.Reach("extract-refused (some transcript not accepting)")
		return
	}
	env.Reach("extracted")
	env.Valid("C08.b/extracted witness satisfies g^w = X", env.EqG(g.ScalarOp(w.W), X))
}

// c08Okamoto: representation proof w.r.t. (g, h), h arbitrary.
func c08Okamoto(env *SymEnv) {
	env.AssumeDrawsNonZero()
	group := env.R.Group()
	g := group.Generator()
	h := env.Point("h")
	env.Assume(symalg.Not(env.EqG(h, group.OpIdentity())))
	p, err := okamoto.NewProtocol[sG, sF]([]sG{g, h}, env.Reader("prover"))
	if !env.Check("C08.okamoto/protocol-ok", err == nil, fmt.Sprint(err)) {
		return
	}
	m, r := env.Scalar("m"), env.Scalar("r")
	x, err := okamoto.NewStatement[sG, sF](g.ScalarOp(m).Op(h.ScalarOp(r)))
	if !env.Check("C08.okamoto/statement-ok", err == nil, fmt.Sprint(err)) {
		return
	}
	w, err := okamoto.NewWitness(m, r)
	if !env.Check("C08.okamoto/witness-ok", err == nil, fmt.Sprint(err)) {
		return
	}
	ring := func(z *okamoto.Response[sF], k int, d sF) *okamoto.Response[sF] {
		comps := z.Z.Components()
		nc := append([]sF(nil), comps...)
		nc[k] = nc[k].Add(d)
		pr, _ := constructions.NewFiniteDirectPowerRing(algebra.PrimeField[sF](env.R.Field()), uint(len(nc)))
		v, _ := pr.New(nc...)
		return &okamoto.Response[sF]{Z: v}
	}
	sigmaCore(env, "C08.okamoto", p, x, w, func(z *okamoto.Response[sF], d sF) []*okamoto.Response[sF] {
		return []*okamoto.Response[sF]{ring(z, 0, d), ring(z, 1, d)}
	})
	ox, _ := okamoto.NewStatement[sG, sF](g.ScalarOp(m.Add(env.Field().One())).Op(h.ScalarOp(r)))
	fsBinding(env, "C08.okamoto", p, x, w, ox)
}

// c08Batch: batch Schnorr for k statements and AND composition of k Schnorr proofs.
func c08Batch(env *SymEnv, k int) {
	env.AssumeDrawsNonZero()
	group := env.R.Group()
	g := group.Generator()
	p, err := batch_schnorr.NewProtocol[sG, sF](k, group, env.Reader("prover"))
	if !env.Check("C08.batch/protocol-ok", err == nil, fmt.Sprint(err)) {
		return
	}
	ws := make([]sF, k)
	xs := make([]sG, k)
	for i := range ws {
		ws[i] = env.Scalar(fmt.Sprintf("w%d", i))
		xs[i] = g.ScalarOp(ws[i])
	}
	x := batch_schnorr.NewStatement[sG, sF](g, xs...)
	w := batch_schnorr.NewWitness(ws...)
	sigmaCore(env, fmt.Sprintf("C08.batch_schnorr[k=%d]", k), p, x, w, func(z *batch_schnorr.Response[sF], d sF) []*batch_schnorr.Response[sF] {
		return []*batch_schnorr.Response[sF]{{Z: z.Z.Add(d)}}
	})
	xs2 := append([]sG(nil), xs...)
	xs2[k-1] = xs2[k-1].Op(g)
	fsBinding(env, fmt.Sprintf("C08.batch_schnorr[k=%d]", k), p, x, w, batch_schnorr.NewStatement[sG, sF](g, xs2...))

	// AND composition of k Schnorr proofs
	sp, err := schnorrpok.NewProtocol[sG, sF](g, env.Reader("prover-and"))
	if !env.Check("C08.and/protocol-ok", err == nil, fmt.Sprint(err)) {
		return
	}
	and, err := sigand.Compose(sp, uint(k))
	if !env.Check("C08.and/compose-ok", err == nil, fmt.Sprint(err)) {
		return
	}
	var sx []*schnorrpok.Statement[sG, sF]
	var sw []*schnorrpok.Witness[sF]
	for i := range ws {
		sx = append(sx, schnorrpok.NewStatement[sG, sF](xs[i]))
		sw = append(sw, schnorrpok.NewWitness(ws[i]))
	}
	ax, e1 := sigand.ComposeStatements(sx...)
	aw, e2 := sigand.ComposeWitnesses(sw...)
	if !env.Check("C08.and/compose-inputs-ok", e1 == nil && e2 == nil, fmt.Sprint(e1, e2)) {
		return
	}
	sigmaCore(env, fmt.Sprintf("C08.sigand[k=%d]", k), and, ax, aw, func(z sigand.Response[*schnorrpok.Response[sF]], d sF) []sigand.Response[*schnorrpok.Response[sF]] {
		var out []sigand.Response[*schnorrpok.Response[sF]]
		for i := range z {
			zz := append(sigand.Response[*schnorrpok.Response[sF]](nil), z...)
			zz[i] = &schnorrpok.Response[sF]{Z: z[i].Z.Add(d)}
			out = append(out, zz)
		}
		return out
	})
	// shape: a transcript whose number of commitments / responses differs from the number of
	// composed statements is refused with an error
	{
		pfx := fmt.Sprintf("C08.sigand[k=%d]", k)
		e := fitChal(chal(0), and.GetChallengeBytesLength())
		a, st, err := and.ComputeProverCommitment(ax, aw)
		if env.Check(pfx+"/shape: commit-ok", err == nil, fmt.Sprint(err)) {
			if z, err := and.ComputeProverResponse(ax, aw, a, st, e); env.Check(pfx+"/shape: response-ok", err == nil, fmt.Sprint(err)) {
				extraZ := append(append(sigand.Response[*schnorrpok.Response[sF]](nil), z...), z[0])
				env.Check(pfx+"/transcript with an extra response is rejected", noPanicErr(func() error { return and.Verify(ax, a, e, extraZ) }) != nil, "accepted k+1 responses")
				extraA := append(append(sigand.Commitment[*schnorrpok.Commitment[sG, sF]](nil), a...), a[0])
				env.Check(pfx+"/transcript with an extra commitment is rejected", noPanicErr(func() error { return and.Verify(ax, extraA, e, z) }) != nil, "accepted k+1 commitments")
				env.Check(pfx+"/transcript with an extra commitment and response is rejected", noPanicErr(func() error { return and.Verify(ax, extraA, e, extraZ) }) != nil, "accepted k+1 commitments and responses")
				if k >= 2 {
					env.Check(pfx+"/transcript with a missing commitment is rejected", noPanicErr(func() error { return and.Verify(ax, a[:k-1], e, z) }) != nil, "accepted k-1 commitments")
				}
				env.Reach(pfx + "/shape-done")
			}
		}
	}
}

// c08OrHetero: binary (cartesian) OR of two DIFFERENT protocols (batch Schnorr with k=2 and plain
// Schnorr: different challenge lengths, in both orders) with the witness on branch b only.
func c08OrHetero(env *SymEnv, batchFirst bool, b int) {
	env.AssumeDrawsNonZero()
	group := env.R.Group()
	g := group.Generator()
	sp, err := schnorrpok.NewProtocol[sG, sF](g, env.Reader("prover-s"))
	bp, err2 := batch_schnorr.NewProtocol(2, group, env.Reader("prover-b"))
	if !env.Check("C08.orhetero/protocols-ok", err == nil && err2 == nil, fmt.Sprint(err, err2)) {
		return
	}
	w, w1, w2 := env.Scalar("w"), env.Scalar("w1"), env.Scalar("w2")
	X, X1, X2 := env.Point("X"), env.Point("X1"), env.Point("X2")
	// branch with the witness has the true statement, the other branch an unrelated statement
	batchHas := (batchFirst && b == 0) || (!batchFirst && b == 1)
	var sX *schnorrpok.Statement[sG, sF]
	var bX *batch_schnorr.Statement[sG, sF]
	if batchHas {
		bX = batch_schnorr.NewStatement[sG, sF](g, g.ScalarOp(w1), g.ScalarOp(w2))
		sX = schnorrpok.NewStatement[sG, sF](X)
		env.Assume(symalg.Not(env.EqG(X, g.ScalarOp(w))))
	} else {
		sX = schnorrpok.NewStatement[sG, sF](g.ScalarOp(w))
		bX = batch_schnorr.NewStatement[sG, sF](g, X1, X2)
		env.Assume(symalg.Not(symalg.And(env.EqG(X1, g.ScalarOp(w1)), env.EqG(X2, g.ScalarOp(w2)))))
	}
	sW, bW := schnorrpok.NewWitness(w), batch_schnorr.NewWitness(w1, w2)
	pfx := fmt.Sprintf("C08.sigor-cartesian[batchFirst=%v,b=%d]", batchFirst, b)
	run := func(commit func() (any, any, error), respond func(a, st any, e sigma.ChallengeBytes) (any, error), verify func(a any, e sigma.ChallengeBytes, z any) error, simulate func(e sigma.ChallengeBytes) (any, any, error), clen int) {
		env.Check(pfx+"/challenge length is the longer of the two", clen == max(sp.GetChallengeBytesLength(), bp.GetChallengeBytesLength()), fmt.Sprint(clen))
		for i := range c08Challenges {
			e := fitChal(chal(i), clen)
			a, st, err := commit()
			if !env.Check(pfx+"/commit-ok", err == nil, fmt.Sprint(err)) {
				return
			}
			z, err := respond(a, st, e)
			if !env.Check(pfx+"/prover with a valid witness on one branch produces a response", err == nil, fmt.Sprint(err)) {
				return
			}
			env.Check(pfx+"/OR proof with exactly one witness verifies (every path)", verify(a, e, z) == nil, fmt.Sprintf("challenge %x rejected", e))
			as, zs, err := simulate(e)
			if env.Check(pfx+"/simulator-ok", err == nil, fmt.Sprint(err)) {
				env.Check(pfx+"/simulated OR transcript verifies", verify(as, e, zs) == nil, "simulated transcript rejected")
			}
		}
		env.Reach(pfx + "/or-done")
	}
	if batchFirst {
		or, err := sigor.CartesianCompose(bp, sp, env.Reader("or"))
		if !env.Check(pfx+"/compose-ok", err == nil, fmt.Sprint(err)) {
			return
		}
		x, _ := sigor.CartesianComposeStatements(bX, sX)
		wt, _ := sigor.CartesianComposeWitnesses(bW, sW)
		type A = *sigor.CommitmentCartesian[*batch_schnorr.Commitment[sG, sF], *schnorrpok.Commitment[sG, sF]]
		type Z = *sigor.ResponseCartesian[*batch_schnorr.Response[sF], *schnorrpok.Response[sF]]
		type S = *sigor.StateCartesian[*batch_schnorr.State[sF], *schnorrpok.State[sF], *batch_schnorr.Response[sF], *schnorrpok.Response[sF]]
		run(func() (any, any, error) { return or.ComputeProverCommitment(x, wt) },
			func(a, st any, e sigma.ChallengeBytes) (any, error) {
				return or.ComputeProverResponse(x, wt, a.(A), st.(S), e)
			},
			func(a any, e sigma.ChallengeBytes, z any) error { return or.Verify(x, a.(A), e, z.(Z)) },
			func(e sigma.ChallengeBytes) (any, any, error) { return or.RunSimulator(x, e) }, or.GetChallengeBytesLength())
	} else {
		or, err := sigor.CartesianCompose(sp, bp, env.Reader("or"))
		if !env.Check(pfx+"/compose-ok", err == nil, fmt.Sprint(err)) {
			return
		}
		x, _ := sigor.CartesianComposeStatements(sX, bX)
		wt, _ := sigor.CartesianComposeWitnesses(sW, bW)
		type A = *sigor.CommitmentCartesian[*schnorrpok.Commitment[sG, sF], *batch_schnorr.Commitment[sG, sF]]
		type Z = *sigor.ResponseCartesian[*schnorrpok.Response[sF], *batch_schnorr.Response[sF]]
		type S = *sigor.StateCartesian[*schnorrpok.State[sF], *batch_schnorr.State[sF], *schnorrpok.Response[sF], *batch_schnorr.Response[sF]]
		run(func() (any, any, error) { return or.ComputeProverCommitment(x, wt) },
			func(a, st any, e sigma.ChallengeBytes) (any, error) {
				return or.ComputeProverResponse(x, wt, a.(A), st.(S), e)
			},
			func(a any, e sigma.ChallengeBytes, z any) error { return or.Verify(x, a.(A), e, z.(Z)) },
			func(e sigma.ChallengeBytes) (any, any, error) { return or.RunSimulator(x, e) }, or.GetChallengeBytesLength())
	}
}

// c08Or: OR composition of n Schnorr statements; the prover knows the witness of branch b only.
func c08Or(env *SymEnv, n, b int) {
	env.AssumeDrawsNonZero()
	group := env.R.Group()
	g := group.Generator()
	sp, err := schnorrpok.NewProtocol[sG, sF](g, env.Reader("prover"))
	if !env.Check("C08.or/protocol-ok", err == nil, fmt.Sprint(err)) {
		return
	}
	or, err := sigor.Compose(sp, uint(n), env.Reader("or"))
	if !env.Check("C08.or/compose-ok", err == nil, fmt.Sprint(err)) {
		return
	}
	wv := env.Scalar("w")
	var sx []*schnorrpok.Statement[sG, sF]
	for i := 0; i < n; i++ {
		if i == b {
			sx = append(sx, schnorrpok.NewStatement[sG, sF](g.ScalarOp(wv)))
		} else {
			X := env.Point(fmt.Sprintf("X%d", i))
			// the prover has no witness for the other branches
			env.Assume(symalg.Not(env.EqG(X, g.ScalarOp(wv))))
			sx = append(sx, schnorrpok.NewStatement[sG, sF](X))
		}
	}
	x, err := sigor.ComposeStatements(sx...)
	if !env.Check("C08.or/statements-ok", err == nil, fmt.Sprint(err)) {
		return
	}
	w := sigor.NewWitness(schnorrpok.NewWitness(wv))
	pfx := fmt.Sprintf("C08.sigor[n=%d,b=%d]", n, b)
	for i := range c08Challenges {
		e := fitChal(chal(i), or.GetChallengeBytesLength())
		a, st, err := or.ComputeProverCommitment(x, w)
		if !env.Check(pfx+"/commit-ok", err == nil, fmt.Sprint(err)) {
			return
		}
		z, err := or.ComputeProverResponse(x, w, a, st, e)
		if !env.Check(pfx+"/response-ok", err == nil, fmt.Sprint(err)) {
			return
		}
		env.Check(pfx+"/OR proof with exactly one witness verifies (every path)", or.Verify(x, a, e, z) == nil, "OR proof rejected")
		as, zs, err := or.RunSimulator(x, e)
		if env.Check(pfx+"/simulator-ok", err == nil, fmt.Sprint(err)) {
			env.Check(pfx+"/simulated OR transcript verifies", or.Verify(x, as, e, zs) == nil, "simulated OR transcript rejected")
		}
	}
	// with no valid branch the prover refuses
	bad := sigor.NewWitness(schnorrpok.NewWitness(wv.Add(env.Field().One())))
	sx2 := append([]*schnorrpok.Statement[sG, sF](nil), sx...)
	_, _, err = or.ComputeProverCommitment(sigor.Statement[*schnorrpok.Statement[sG, sF]](sx2), bad)
	if err == nil {
		// feasible only if w+1 happens to open another branch
		env.Reach(pfx + "/prover accepted a witness that opens another branch (measure-zero path)")
	} else {
		env.Reach(pfx + "/prover refuses without a witness")
	}
	env.Reach(pfx + "/or-done")
}

// C08Cases builds the case list.
func C08Cases(tier string, seed int64) []Case {
	mk := func(id string, desc any, f func(e *SymEnv), must ...string) Case {
		return Case{ID: id, Desc: desc, Sym: f, MustReach: must}
	}
	cases := []Case{
		mk("C08/schnorr", map[string]any{"protocol": "dlog/schnorr", "witness": "symbolic"}, c08Schnorr, "C08.schnorr/core-done", "C08.schnorr/fs-done"),
		mk("C08/okamoto", map[string]any{"protocol": "okamoto (g,h), h arbitrary"}, c08Okamoto, "C08.okamoto/core-done", "C08.okamoto/fs-done"),
	}
	for i := 0; i < len(c08Challenges); i++ {
		for j := 0; j < len(c08Challenges); j++ {
			if i == j || (tier != "thorough" && (i+j)%2 == 0) {
				continue
			}
			ii, jj := i, j
			cases = append(cases, mk(fmt.Sprintf("C08/schnorr-extract/e=%s,%s", c08Challenges[i][24:], c08Challenges[j][24:]), map[string]any{"clause": "special soundness", "statement, commitment, responses": "arbitrary"},
				func(e *SymEnv) { c08SchnorrExtract(e, ii, jj) }, "extracted"))
		}
	}
	ks := []int{2, 3}
	if tier == "thorough" {
		ks = append(ks, 4, 5)
	}
	for _, k := range ks {
		kk := k
		cases = append(cases, mk(fmt.Sprintf("C08/batch-and/k=%d", k), map[string]any{"protocols": "batch_schnorr, sigand(schnorr)", "k": k}, func(e *SymEnv) { c08Batch(e, kk) }))
	}
	for _, n := range []int{2, 3} {
		for b := 0; b < n; b++ {
			nn, bb := n, b
			cases = append(cases, mk(fmt.Sprintf("C08/or/n=%d/b=%d", n, b), map[string]any{"protocol": "sigor(schnorr)", "branches": n, "witness for branch": b}, func(e *SymEnv) { c08Or(e, nn, bb) }, fmt.Sprintf("C08.sigor[n=%d,b=%d]/or-done", n, b)))
		}
	}
	for _, bf := range []bool{true, false} {
		for b := 0; b < 2; b++ {
			f, bb := bf, b
			cases = append(cases, mk(fmt.Sprintf("C08/or-cartesian/batchFirst=%v/b=%d", bf, b), map[string]any{"protocol": "sigor.CartesianCompose(batch_schnorr[k=2], schnorr) — different challenge lengths", "batch first": bf, "witness for branch": b},
				func(e *SymEnv) { c08OrHetero(e, f, bb) }, fmt.Sprintf("C08.sigor-cartesian[batchFirst=%v,b=%d]/or-done", bf, b)))
		}
	}
	cases = append(cases, mk("C08/elgamal/elcomop", map[string]any{"protocol": "elcomop: knowledge of the opening of an ElGamal commitment (Maurer09 instance over G×F → G²)", "key, opening, offsets": "symbolic"},
		c08Elcomop, "C08.elcomop/done"))
	cases = append(cases, mk("C08/elgamal/elog", map[string]any{"protocol": "elog: elcomop ∧ Schnorr (committed element is g^y and Y = h^y)", "key, y, λ, h, offsets": "symbolic"},
		c08Elog, "C08.elog/done"))
	for _, cn := range []compiler.Name{fischlin.Name, randfischlin.Name} {
		// (k = 5..8 gives the Fischlin parameter t = 16, a multiple of 8)
		ks := []int{1, 2, 5}
		if tier == "thorough" {
			ks = []int{1, 2, 3, 4, 5, 8, 9}
		}
		for _, k := range ks {
			c, kk := cn, k
			cases = append(cases, mk(fmt.Sprintf("C08/compiler/%s/k=%d", cn, k), map[string]any{"compiler": string(cn), "protocol": "Schnorr (k=1) / batch Schnorr", "k": k, "witnesses": "symbolic"},
				func(e *SymEnv) { c08Compilers(e, c, kk) }, "compiled-done"))
		}
	}
	return cases
}
