package e2

import (
	"fmt"
	"math/big"

	"github.com/bronlabs/bron-crypto/pkg/base/algebra"
	"github.com/bronlabs/bron-crypto/pkg/base/curves/k256"
	"github.com/bronlabs/bron-crypto/pkg/commitments/indcpacom"
	pedcom "github.com/bronlabs/bron-crypto/pkg/commitments/pedersencom"
	"github.com/bronlabs/bron-crypto/pkg/encryption/elgamal"
	"github.com/bronlabs/bron-crypto/pkg/mpc/sharing"

	"verif/engine/symalg"
)

// c18Pedersen: arbitrary second generator h (symbolic discrete log), message, witness symbolic.
func c18Pedersen[E algebra.PrimeGroupElement[E, S], S algebra.PrimeFieldElement[S]](env Env[E, S]) {
	f := env.Field()
	group := env.Group()
	g := group.Generator()
	key, h, ok := pedersenKey(env)
	if !ok {
		return
	}
	env.Reach("key")
	mv, rv := env.Scalar("m"), env.Scalar("r")
	m, _ := pedcom.NewMessage(mv)
	w, err := pedcom.NewWitness(rv)
	if !env.Check("C18.b/witness-ok", err == nil, fmt.Sprint(err)) {
		return
	}
	c, err := key.CommitWithWitness(m, w)
	if !env.Check("C18.b/commit-ok", err == nil, fmt.Sprint(err)) {
		return
	}
	env.Valid("C18.b/C=g^m·h^r", env.EqG(c.Value(), g.ScalarOp(mv).Op(h.ScalarOp(rv))))
	env.Check("C18.b/opens-with-committed-values", key.Open(c, m, w) == nil, "honest opening rejected")

	// arbitrary other opening (m', r'): accept ⇔ g^m'·h^r' = C
	m2v, r2v := env.Scalar("m'"), env.Scalar("r'")
	m2, _ := pedcom.NewMessage(m2v)
	w2, _ := pedcom.NewWitness(r2v)
	same := env.EqG(g.ScalarOp(m2v).Op(h.ScalarOp(r2v)), c.Value())
	if key.Open(c, m2, w2) == nil {
		env.Reach("other-opening-accepted")
		env.Valid("C18.b/accept⇒g^m'h^r'=C", same)
	} else {
		env.Reach("other-opening-rejected")
		env.Valid("C18.b/reject⇒g^m'h^r'≠C", symalg.Not(same))
	}

	// single-component changes by δ ≠ 0
	delta := env.Scalar("delta")
	env.Assume(symalg.Not(env.EqF(delta, f.Zero())))
	md, _ := pedcom.NewMessage(mv.Add(delta))
	env.Check("C18.b/changed-message-rejected", key.Open(c, md, w) != nil, "opening with message+δ accepted")
	wd, _ := pedcom.NewWitness(rv.Add(delta))
	env.Check("C18.b/changed-witness-rejected", key.Open(c, m, wd) != nil, "opening with witness+δ accepted")
	cd, _ := pedcom.NewCommitment[E, S](c.Value().Op(g.ScalarOp(delta)))
	env.Check("C18.b/changed-commitment-rejected", key.Open(cd, m, w) != nil, "changed commitment accepted")
	// changed key (h' = h·g^δ): rejected whenever the commitment depends on h at all (r ≠ 0)
	if key2, err := pedcom.NewCommitmentKeyUnchecked(g, h.Op(g.ScalarOp(delta))); err == nil {
		rej := key2.Open(c, m, w) != nil
		if rej {
			env.Reach("changed-key-rejected")
		} else {
			env.Valid("C18.b/changed-key-accepted⇒witness=0", env.EqF(rv, f.Zero()))
		}
	}

	// homomorphisms: the combination opens to the combined message and witness
	c2, err := key.CommitWithWitness(m2, w2)
	if env.Check("C18.b/commit2-ok", err == nil, fmt.Sprint(err)) {
		cc, e1 := key.CommitmentOp(c, c2)
		mm, e2 := key.MessageOp(m, m2)
		ww, e3 := key.WitnessOp(w, w2)
		if env.Check("C18.b/op-ok", e1 == nil && e2 == nil && e3 == nil, fmt.Sprint(e1, e2, e3)) {
			env.Check("C18.b/CommitmentOp opens to (MessageOp, WitnessOp)", key.Open(cc, mm, ww) == nil, "combined commitment does not open to combined message/witness")
			env.Valid("C18.b/MessageOp=m+m'", env.EqF(mm.Value(), mv.Add(m2v)))
		}
		k := env.Scalar("k")
		cs, e1 := key.CommitmentScalarOp(c, k)
		ms, e2 := key.MessageScalarOp(m, k)
		ws, e3 := key.WitnessScalarOp(w, k)
		if env.Check("C18.b/scalarop-ok", e1 == nil && e2 == nil && e3 == nil, fmt.Sprint(e1, e2, e3)) {
			env.Check("C18.b/CommitmentScalarOp opens to scaled (message, witness)", key.Open(cs, ms, ws) == nil, "scaled commitment does not open")
		}
		ci, e1 := key.CommitmentOpInv(c)
		mi, e2 := key.MessageOpInv(m)
		wi, e3 := key.WitnessOpInv(w)
		if env.Check("C18.b/opinv-ok", e1 == nil && e2 == nil && e3 == nil, fmt.Sprint(e1, e2, e3)) {
			env.Check("C18.b/CommitmentOpInv opens to inverted (message, witness)", key.Open(ci, mi, wi) == nil, "inverted commitment does not open")
		}
		rr, e1 := key.ReRandomise(c, w2)
		if env.Check("C18.b/rerandomise-ok", e1 == nil, fmt.Sprint(e1)) {
			wsum, _ := key.WitnessOp(w, w2)
			env.Check("C18.b/ReRandomise opens to (m, r+r')", key.Open(rr, m, wsum) == nil, "re-randomised commitment does not open to the same message")
		}
		sh, e1 := key.Shift(c, m2)
		if env.Check("C18.b/shift-ok", e1 == nil, fmt.Sprint(e1)) {
			msum, _ := key.MessageOp(m, m2)
			env.Check("C18.b/Shift opens to (m+m', r)", key.Open(sh, msum, w) == nil, "shifted commitment does not open")
		}
		// sequence of three
		if cc != nil {
			c3, e1 := key.CommitmentOp(cc, c)
			m3, e2 := key.MessageOp(m, m2, m)
			w3, e3 := key.WitnessOp(w, w2, w)
			if e1 == nil && e2 == nil && e3 == nil {
				env.Check("C18.b/three-fold combination opens", key.Open(c3, m3, w3) == nil, "three-fold combination does not open")
			}
		}
	}
}

// c18Trapdoor: equivocation with a concrete trapdoor λ; symbolic messages and witness.
func c18Trapdoor[E algebra.PrimeGroupElement[E, S], S algebra.PrimeFieldElement[S]](env Env[E, S], lambda *big.Int) {
	g := env.Group().Generator()
	lam := env.Const(lambda)
	td, err := pedcom.NewTrapdoorKey[E, S](g, lam)
	if !env.Check("C18.b/trapdoor-key-ok", err == nil, fmt.Sprint(err)) {
		return
	}
	env.Reach("trapdoor")
	pub := td.Export()
	env.Valid("C18.b/exported h=g^λ", env.EqG(pub.H(), g.ScalarOp(lam)))
	mv, rv, nv := env.Scalar("m"), env.Scalar("r"), env.Scalar("m_new")
	m, _ := pedcom.NewMessage(mv)
	w, _ := pedcom.NewWitness(rv)
	mn, _ := pedcom.NewMessage(nv)
	c, err := td.CommitWithWitness(m, w)
	if !env.Check("C18.b/trapdoor-commit-ok", err == nil, fmt.Sprint(err)) {
		return
	}
	cp, err := pub.CommitWithWitness(m, w)
	if env.Check("C18.b/public-commit-ok", err == nil, fmt.Sprint(err)) {
		env.Valid("C18.b/trapdoor commit = public commit", env.EqG(c.Value(), cp.Value()))
	}
	wn, err := td.Equivocate(m, w, mn, env.Reader("unused"))
	if env.Check("C18.b/equivocate-ok", err == nil, fmt.Sprint(err)) {
		env.Check("C18.b/equivocated opening verifies under the exported key", pub.Open(c, mn, wn) == nil, "equivocated opening rejected")
		// and it is the only witness for that message: witness+δ fails
		delta := env.Scalar("delta")
		env.Assume(symalg.Not(env.EqF(delta, env.Field().Zero())))
		wbad, _ := pedcom.NewWitness(wn.Value().Add(delta))
		env.Check("C18.b/equivocated witness is unique", pub.Open(c, mn, wbad) != nil, "shifted equivocation witness accepted")
	}
}

// c18IndCPA: commitment = ElGamal encryption; opening = (plaintext, nonce).
func c18IndCPA[E algebra.PrimeGroupElement[E, S], S algebra.PrimeFieldElement[S]](env Env[E, S]) {
	f := env.Field()
	group := env.Group()
	g := group.Generator()
	a := env.Scalar("sk")
	env.Assume(symalg.Not(env.EqF(a, f.Zero())))
	env.Assume(symalg.Not(env.EqF(a, f.One())))
	sk, err := elgamal.NewSecretKey[E, S](g, a)
	if !env.Check("C18.c/keygen-ok", err == nil, fmt.Sprint(err)) {
		return
	}
	pk := sk.Public()
	key, err := indcpacom.NewCommitmentKey[*elgamal.PublicKey[E, S], *elgamal.Plaintext[E, S], *elgamal.Nonce[S], *elgamal.Ciphertext[E, S]](pk)
	if !env.Check("C18.c/commitment-key-ok", err == nil, fmt.Sprint(err)) {
		return
	}
	env.Reach("key")
	mv, rv := env.Point("m"), env.Scalar("r")
	env.Assume(symalg.Not(env.EqF(rv, f.Zero())))
	pt, _ := elgamal.NewPlaintext[E, S](mv)
	nn, _ := elgamal.NewNonce(rv)
	m, e1 := indcpacom.NewMessage(pt)
	w, e2 := indcpacom.NewWitness(nn)
	if !env.Check("C18.c/setup", e1 == nil && e2 == nil, fmt.Sprint(e1, e2)) {
		return
	}
	c, err := key.CommitWithWitness(m, w)
	if !env.Check("C18.c/commit-ok", err == nil, fmt.Sprint(err)) {
		return
	}
	env.Check("C18.c/opens-with-committed-values", key.Open(c, m, w) == nil, "honest opening rejected")
	// an arbitrary other opening is accepted iff message and nonce are both equal
	m2v, r2v := env.Point("m'"), env.Scalar("r'")
	env.Assume(symalg.Not(env.EqF(r2v, f.Zero())))
	pt2, _ := elgamal.NewPlaintext[E, S](m2v)
	nn2, _ := elgamal.NewNonce(r2v)
	m2, _ := indcpacom.NewMessage(pt2)
	w2, _ := indcpacom.NewWitness(nn2)
	eq := symalg.And(env.EqG(mv, m2v), env.EqF(rv, r2v))
	if key.Open(c, m2, w2) == nil {
		env.Reach("other-opening-accepted")
		env.Valid("C18.c/accept⇒(m,r)=(m',r')", eq)
	} else {
		env.Reach("other-opening-rejected")
		env.Valid("C18.c/reject⇒(m,r)≠(m',r')", symalg.Not(eq))
	}
	// the decryption key extracts the committed message
	if p, err := sk.Decrypt(c.Value()); env.Check("C18.c/decrypt-ok", err == nil, fmt.Sprint(err)) {
		env.Valid("C18.c/decryption key extracts the message", env.EqG(p.Value(), mv))
	}
}

// c18Nary: variadic combinations with n = 2..5 operands, Pedersen and ElGamal-based commitments:
// CommitmentOp(c1..cn) opens to (MessageOp(m1..mn), WitnessOp(w1..wn)), and the combined message /
// witness are the sums of ALL operands.
func c18Nary[E algebra.PrimeGroupElement[E, S], S algebra.PrimeFieldElement[S]](env Env[E, S], n int) {
	f := env.Field()
	group := env.Group()
	g := group.Generator()
	key, _, ok := pedersenKey(env)
	if !ok {
		return
	}
	var ms []*pedcom.Message[S]
	var ws []*pedcom.Witness[S]
	var cs []*pedcom.Commitment[E, S]
	msum, wsum := f.Zero(), f.Zero()
	for i := 0; i < n; i++ {
		mv, rv := env.Scalar(fmt.Sprintf("m%d", i)), env.Scalar(fmt.Sprintf("r%d", i))
		m, _ := pedcom.NewMessage(mv)
		w, _ := pedcom.NewWitness(rv)
		c, err := key.CommitWithWitness(m, w)
		if !env.Check("C18.b/nary: commit-ok", err == nil, fmt.Sprint(err)) {
			return
		}
		ms, ws, cs = append(ms, m), append(ws, w), append(cs, c)
		msum, wsum = msum.Add(mv), wsum.Add(rv)
	}
	cc, e1 := key.CommitmentOp(cs[0], cs[1], cs[2:]...)
	mm, e2 := key.MessageOp(ms[0], ms[1], ms[2:]...)
	ww, e3 := key.WitnessOp(ws[0], ws[1], ws[2:]...)
	if env.Check(fmt.Sprintf("C18.b/nary[n=%d]: ops-ok", n), e1 == nil && e2 == nil && e3 == nil, fmt.Sprint(e1, e2, e3)) {
		env.Valid(fmt.Sprintf("C18.b/nary[n=%d]: MessageOp is the sum of all messages", n), env.EqF(mm.Value(), msum))
		env.Valid(fmt.Sprintf("C18.b/nary[n=%d]: WitnessOp is the sum of all witnesses", n), env.EqF(ww.Value(), wsum))
		env.Check(fmt.Sprintf("C18.b/nary[n=%d]: CommitmentOp opens to (MessageOp, WitnessOp)", n), key.Open(cc, mm, ww) == nil, "combined commitment does not open")
	}

	// ElGamal-based commitments
	a := env.Scalar("sk")
	env.Assume(symalg.Not(env.EqF(a, f.Zero())))
	env.Assume(symalg.Not(env.EqF(a, f.One())))
	sk, err := elgamal.NewSecretKey[E, S](g, a)
	if !env.Check("C18.c/nary: keygen-ok", err == nil, fmt.Sprint(err)) {
		return
	}
	hk, err := indcpacom.NewHomomorphicCommitmentKey[*elgamal.PublicKey[E, S], *elgamal.Plaintext[E, S], *elgamal.Nonce[S], *elgamal.Ciphertext[E, S], S](sk.Public())
	if !env.Check("C18.c/nary: key-ok", err == nil, fmt.Sprint(err)) {
		return
	}
	var ims []*indcpacom.Message[*elgamal.Plaintext[E, S]]
	var iws []*indcpacom.Witness[*elgamal.Nonce[S]]
	var ics []*indcpacom.Commitment[*elgamal.Ciphertext[E, S]]
	psum, nsum := group.OpIdentity(), f.Zero()
	for i := 0; i < n; i++ {
		pv, rv := env.Point(fmt.Sprintf("p%d", i)), env.Scalar(fmt.Sprintf("n%d", i))
		env.Assume(symalg.Not(env.EqF(rv, f.Zero())))
		pt, _ := elgamal.NewPlaintext[E, S](pv)
		nn, e0 := elgamal.NewNonce(rv)
		m, e1 := indcpacom.NewMessage(pt)
		w, e2 := indcpacom.NewWitness(nn)
		if !env.Check("C18.c/nary: inputs-ok", e0 == nil && e1 == nil && e2 == nil, fmt.Sprint(e0, e1, e2)) {
			return
		}
		c, err := hk.CommitWithWitness(m, w)
		if !env.Check("C18.c/nary: commit-ok", err == nil, fmt.Sprint(err)) {
			return
		}
		ims, iws, ics = append(ims, m), append(iws, w), append(ics, c)
		psum, nsum = psum.Op(pv), nsum.Add(rv)
	}
	env.Assume(symalg.Not(env.EqF(nsum, f.Zero())))
	icc, e1 := hk.CommitmentOp(ics[0], ics[1], ics[2:]...)
	imm, e2 := hk.MessageOp(ims[0], ims[1], ims[2:]...)
	iww, e3 := hk.WitnessOp(iws[0], iws[1], iws[2:]...)
	if env.Check(fmt.Sprintf("C18.c/nary[n=%d]: ops-ok", n), e1 == nil && e2 == nil && e3 == nil, fmt.Sprint(e1, e2, e3)) {
		env.Valid(fmt.Sprintf("C18.c/nary[n=%d]: MessageOp is the product of all plaintexts", n), env.EqG(imm.Value().Value(), psum))
		env.Valid(fmt.Sprintf("C18.c/nary[n=%d]: WitnessOp is the sum of all nonces", n), env.EqF(iww.Value().Value(), nsum))
		env.Check(fmt.Sprintf("C18.c/nary[n=%d]: CommitmentOp opens to (MessageOp, WitnessOp)", n), hk.Open(icc, imm, iww) == nil, "combined commitment does not open")
	}
	env.Reach("nary-done")
}

// c18ExtractKey: a transcript-derived Pedersen key uses the base point it was given.
func c18ExtractKey(env *SymEnv) {
	group := env.R.Group()
	f := env.Field()
	P := env.Point("basepoint")
	env.Assume(symalg.Not(env.EqG(P, group.OpIdentity())))
	ctxs, err := makeContexts("c18/extract", []sharing.ID{1, 2})
	if err != nil {
		env.Check("C18.b/extract: harness", false, err.Error())
		return
	}
	t1, t2 := ctxs[1].Transcript().Clone(), ctxs[1].Transcript().Clone()
	key, err := pedcom.ExtractCommitmentKey[sG, sF](t1, "label", P)
	keyG, err2 := pedcom.ExtractCommitmentKey[sG, sF](t2, "label", group.Generator())
	if err != nil || err2 != nil {
		env.Reach("extract-refused")
		return
	}
	env.Valid("C18.b/extract: the key's first generator is the supplied base point", env.EqG(key.G(), P))
	env.Valid("C18.b/extract: equal transcripts give the same second generator", env.EqG(key.H(), keyG.H()))
	mv, rv := env.Scalar("m"), env.Scalar("r")
	m, _ := pedcom.NewMessage(mv)
	w, _ := pedcom.NewWitness(rv)
	c, err := key.CommitWithWitness(m, w)
	if env.Check("C18.b/extract: commit-ok", err == nil, fmt.Sprint(err)) {
		env.Valid("C18.b/extract: commitment = P^m · h^r", env.EqG(c.Value(), P.ScalarOp(mv).Op(key.H().ScalarOp(rv))))
		if explicit, err := pedcom.NewCommitmentKeyUnchecked[sG, sF](P, key.H()); err == nil {
			env.Check("C18.b/extract: opens under the explicitly built key (P, h)", explicit.Open(c, m, w) == nil, "does not open under (P,h)")
		}
		// under the key derived for the canonical generator it opens only if P = G or m = 0
		if keyG.Open(c, m, w) == nil {
			env.Valid("C18.b/extract: opening under the key for another base point ⇒ same base point or m=0", symalg.Or(env.EqG(P, group.Generator()), env.EqF(mv, f.Zero())))
		} else {
			env.Reach("other-base-point-key-rejects")
		}
	}
	env.Reach("extract-done")
}

// C18Cases builds the case list (E2 part: Pedersen, trapdoor, IND-CPA commitments).
func C18Cases(tier string, seed int64) []Case {
	var cases []Case
	cases = append(cases, both("C18/pedersen", map[string]any{"scheme": "pedersen", "h": "arbitrary ∉{1,g}"},
		func(e Env[*symalg.G, *symalg.F]) { c18Pedersen(e) },
		func(e Env[*k256.Point, *k256.Scalar]) { c18Pedersen(e) }))
	lams := []string{"2", "3", "18446744073709551629", "115792089237316195423570985008687907852837564279074904382605163141518161494335"}
	for _, l := range lams {
		lam, _ := new(big.Int).SetString(l, 10)
		cases = append(cases, both("C18/pedersen-trapdoor/λ="+l, map[string]any{"scheme": "pedersen-trapdoor", "lambda": l},
			func(e Env[*symalg.G, *symalg.F]) { c18Trapdoor(e, lam) },
			func(e Env[*k256.Point, *k256.Scalar]) { c18Trapdoor(e, lam) }))
	}
	ns := []int{3, 4}
	if tier == "thorough" {
		ns = []int{2, 3, 4, 5, 6}
	}
	for _, n := range ns {
		nn := n
		c := both(fmt.Sprintf("C18/nary/n=%d", n), map[string]any{"schemes": "pedersen, indcpacom over elgamal", "operands": n},
			func(e Env[*symalg.G, *symalg.F]) { c18Nary(e, nn) },
			func(e Env[*k256.Point, *k256.Scalar]) { c18Nary(e, nn) })
		c.MustReach = []string{"nary-done"}
		cases = append(cases, c)
	}
	cases = append(cases, Case{ID: "C18/pedersen-extract-key", Desc: map[string]any{"scheme": "pedersen", "key": "ExtractCommitmentKey with an arbitrary symbolic base point"}, Sym: c18ExtractKey, MustReach: []string{"extract-done"}})
	cases = append(cases, both("C18/indcpacom-elgamal", map[string]any{"scheme": "indcpacom over elgamal"},
		func(e Env[*symalg.G, *symalg.F]) { c18IndCPA(e) },
		func(e Env[*k256.Point, *k256.Scalar]) { c18IndCPA(e) }))
	return cases
}
