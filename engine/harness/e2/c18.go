package e2

import (
	"fmt"
	"math/big"

	"github.com/bronlabs/bron-crypto/pkg/base/algebra"
	"github.com/bronlabs/bron-crypto/pkg/base/curves/k256"
	"github.com/bronlabs/bron-crypto/pkg/commitments/indcpacom"
	pedcom "github.com/bronlabs/bron-crypto/pkg/commitments/pedersencom"
	"github.com/bronlabs/bron-crypto/pkg/encryption/elgamal"

	"verif/engine/symalg"
)

// c18Pedersen: arbitrary second generator h (symbolic discrete log), message, witness symbolic.
func c18Pedersen[E algebra.PrimeGroupElement[E, S], S algebra.PrimeFieldElement[S]](env Env[E, S]) {
	f := env.Field()
	group := env.Group()
	g := group.Generator()
	key, h, ok := pedersenKey(env)
	if !ok {
		return
	}
	env.Reach("key")
	mv, rv := env.Scalar("m"), env.Scalar("r")
	m, _ := pedcom.NewMessage(mv)
	w, err := pedcom.NewWitness(rv)
	if !env.Check("C18.b/witness-ok", err == nil, fmt.Sprint(err)) {
		return
	}
	c, err := key.CommitWithWitness(m, w)
	if !env.Check("C18.b/commit-ok", err == nil, fmt.Sprint(err)) {
		return
	}
	env.Valid("C18.b/C=g^m·h^r", env.EqG(c.Value(), g.ScalarOp(mv).Op(h.ScalarOp(rv))))
	env.Check("C18.b/opens-with-committed-values", key.Open(c, m, w) == nil, "honest opening rejected")

	// arbitrary other opening (m', r'): accept ⇔ g^m'·h^r' = C
	m2v, r2v := env.Scalar("m'"), env.Scalar("r'")
	m2, _ := pedcom.NewMessage(m2v)
	w2, _ := pedcom.NewWitness(r2v)
	same := env.EqG(g.ScalarOp(m2v).Op(h.ScalarOp(r2v)), c.Value())
	if key.Open(c, m2, w2) == nil {
		env.Reach("other-opening-accepted")
		env.Valid("C18.b/accept⇒g^m'h^r'=C", same)
	} else {
		env.Reach("other-opening-rejected")
		env.Valid("C18.b/reject⇒g^m'h^r'≠C", symalg.Not(same))
	}

	// single-component changes by δ ≠ 0
	delta := env.Scalar("delta")
	env.Assume(symalg.Not(env.EqF(delta, f.Zero())))
	md, _ := pedcom.NewMessage(mv.Add(delta))
	env.Check("C18.b/changed-message-rejected", key.Open(c, md, w) != nil, "opening with message+δ accepted")
	wd, _ := pedcom.NewWitness(rv.Add(delta))
	env.Check("C18.b/changed-witness-rejected", key.Open(c, m, wd) != nil, "opening with witness+δ accepted")
	cd, _ := pedcom.NewCommitment[E, S](c.Value().Op(g.ScalarOp(delta)))
	env.Check("C18.b/changed-commitment-rejected", key.Open(cd, m, w) != nil, "changed commitment accepted")
	// changed key (h' = h·g^δ): rejected whenever the commitment depends on h at all (r ≠ 0)
	if key2, err := pedcom.NewCommitmentKeyUnchecked(g, h.Op(g.ScalarOp(delta))); err == nil {
		rej := key2.Open(c, m, w) != nil
		if rej {
			env.Reach("changed-key-rejected")
		} else {
			env.Valid("C18.b/changed-key-accepted⇒witness=0", env.EqF(rv, f.Zero()))
		}
	}

	// homomorphisms: the combination opens to the combined message and witness
	c2, err := key.CommitWithWitness(m2, w2)
	if env.Check("C18.b/commit2-ok", err == nil, fmt.Sprint(err)) {
		cc, e1 := key.CommitmentOp(c, c2)
		mm, e2 := key.MessageOp(m, m2)
		ww, e3 := key.WitnessOp(w, w2)
		if env.Check("C18.b/op-ok", e1 == nil && e2 == nil && e3 == nil, fmt.Sprint(e1, e2, e3)) {
			env.Check("C18.b/CommitmentOp opens to (MessageOp, WitnessOp)", key.Open(cc, mm, ww) == nil, "combined commitment does not open to combined message/witness")
			env.Valid("C18.b/MessageOp=m+m'", env.EqF(mm.Value(), mv.Add(m2v)))
		}
		k := env.Scalar("k")
		cs, e1 := key.CommitmentScalarOp(c, k)
		ms, e2 := key.MessageScalarOp(m, k)
		ws, e3 := key.WitnessScalarOp(w, k)
		if env.Check("C18.b/scalarop-ok", e1 == nil && e2 == nil && e3 == nil, fmt.Sprint(e1, e2, e3)) {
			env.Check("C18.b/CommitmentScalarOp opens to scaled (message, witness)", key.Open(cs, ms, ws) == nil, "scaled commitment does not open")
		}
		ci, e1 := key.CommitmentOpInv(c)
		mi, e2 := key.MessageOpInv(m)
		wi, e3 := key.WitnessOpInv(w)
		if env.Check("C18.b/opinv-ok", e1 == nil && e2 == nil && e3 == nil, fmt.Sprint(e1, e2, e3)) {
			env.Check("C18.b/CommitmentOpInv opens to inverted (message, witness)", key.Open(ci, mi, wi) == nil, "inverted commitment does not open")
		}
		rr, e1 := key.ReRandomise(c, w2)
		if env.Check("C18.b/rerandomise-ok", e1 == nil, fmt.Sprint(e1)) {
			wsum, _ := key.WitnessOp(w, w2)
			env.Check("C18.b/ReRandomise opens to (m, r+r')", key.Open(rr, m, wsum) == nil, "re-randomised commitment does not open to the same message")
		}
		sh, e1 := key.Shift(c, m2)
		if env.Check("C18.b/shift-ok", e1 == nil, fmt.Sprint(e1)) {
			msum, _ := key.MessageOp(m, m2)
			env.Check("C18.b/Shift opens to (m+m', r)", key.Open(sh, msum, w) == nil, "shifted commitment does not open")
		}
		// sequence of three
		if cc != nil {
			c3, e1 := key.CommitmentOp(cc, c)
			m3, e2 := key.MessageOp(m, m2, m)
			w3, e3 := key.WitnessOp(w, w2, w)
			if e1 == nil && e2 == nil && e3 == nil {
				env.Check("C18.b/three-fold combination opens", key.Open(c3, m3, w3) == nil, "three-fold combination does not open")
			}
		}
	}
}

// c18Trapdoor: equivocation with a concrete trapdoor λ; symbolic messages and witness.
func c18Trapdoor[E algebra.PrimeGroupElement[E, S], S algebra.PrimeFieldElement[S]](env Env[E, S], lambda *big.Int) {
	g := env.Group().Generator()
	lam := env.Const(lambda)
	td, err := pedcom.NewTrapdoorKey[E, S](g, lam)
	if !env.Check("C18.b/trapdoor-key-ok", err == nil, fmt.Sprint(err)) {
		return
	}
	env.Reach("trapdoor")
	pub := td.Export()
	env.Valid("C18.b/exported h=g^λ", env.EqG(pub.H(), g.ScalarOp(lam)))
	mv, rv, nv := env.Scalar("m"), env.Scalar("r"), env.Scalar("m_new")
	m, _ := pedcom.NewMessage(mv)
	w, _ := pedcom.NewWitness(rv)
	mn, _ := pedcom.NewMessage(nv)
	c, err := td.CommitWithWitness(m, w)
	if !env.Check("C18.b/trapdoor-commit-ok", err == nil, fmt.Sprint(err)) {
		return
	}
	cp, err := pub.CommitWithWitness(m, w)
	if env.Check("C18.b/public-commit-ok", err == nil, fmt.Sprint(err)) {
		env.Valid("C18.b/trapdoor commit = public commit", env.EqG(c.Value(), cp.Value()))
	}
	wn, err := td.Equivocate(m, w, mn, env.Reader("unused"))
	if env.Check("C18.b/equivocate-ok", err == nil, fmt.Sprint(err)) {
		env.Check("C18.b/equivocated opening verifies under the exported key", pub.Open(c, mn, wn) == nil, "equivocated opening rejected")
		// and it is the only witness for that message: witness+δ fails
		delta := env.Scalar("delta")
		env.Assume(symalg.Not(env.EqF(delta, env.Field().Zero())))
		wbad, _ := pedcom.NewWitness(wn.Value().Add(delta))
		env.Check("C18.b/equivocated witness is unique", pub.Open(c, mn, wbad) != nil, "shifted equivocation witness accepted")
	}
}

// c18IndCPA: commitment = ElGamal encryption; opening = (plaintext, nonce).
func c18IndCPA[E algebra.PrimeGroupElement[E, S], S algebra.PrimeFieldElement[S]](env Env[E, S]) {
	f := env.Field()
	group := env.Group()
	g := group.Generator()
	a := env.Scalar("sk")
	env.Assume(symalg.Not(env.EqF(a, f.Zero())))
	env.Assume(symalg.Not(env.EqF(a, f.One())))
	sk, err := elgamal.NewSecretKey[E, S](g, a)
	if !env.Check("C18.c/keygen-ok", err == nil, fmt.Sprint(err)) {
		return
	}
	pk := sk.Public()
	key, err := indcpacom.NewCommitmentKey[*elgamal.PublicKey[E, S], *elgamal.Plaintext[E, S], *elgamal.Nonce[S], *elgamal.Ciphertext[E, S]](pk)
	if !env.Check("C18.c/commitment-key-ok", err == nil, fmt.Sprint(err)) {
		return
	}
	env.Reach("key")
	mv, rv := env.Point("m"), env.Scalar("r")
	env.Assume(symalg.Not(env.EqF(rv, f.Zero())))
	pt, _ := elgamal.NewPlaintext[E, S](mv)
	nn, _ := elgamal.NewNonce(rv)
	m, e1 := indcpacom.NewMessage(pt)
	w, e2 := indcpacom.NewWitness(nn)
	if !env.Check("C18.c/setup", e1 == nil && e2 == nil, fmt.Sprint(e1, e2)) {
		return
	}
	c, err := key.CommitWithWitness(m, w)
	if !env.Check("C18.c/commit-ok", err == nil, fmt.Sprint(err)) {
		return
	}
	env.Check("C18.c/opens-with-committed-values", key.Open(c, m, w) == nil, "honest opening rejected")
	// an arbitrary other opening is accepted iff message and nonce are both equal
	m2v, r2v := env.Point("m'"), env.Scalar("r'")
	env.Assume(symalg.Not(env.EqF(r2v, f.Zero())))
	pt2, _ := elgamal.NewPlaintext[E, S](m2v)
	nn2, _ := elgamal.NewNonce(r2v)
	m2, _ := indcpacom.NewMessage(pt2)
	w2, _ := indcpacom.NewWitness(nn2)
	eq := symalg.And(env.EqG(mv, m2v), env.EqF(rv, r2v))
	if key.Open(c, m2, w2) == nil {
		env.Reach("other-opening-accepted")
		env.Valid("C18.c/accept⇒(m,r)=(m',r')", eq)
	} else {
		env.Reach("other-opening-rejected")
		env.Valid("C18.c/reject⇒(m,r)≠(m',r')", symalg.Not(eq))
	}
	// the decryption key extracts the committed message
	if p, err := sk.Decrypt(c.Value()); env.Check("C18.c/decrypt-ok", err == nil, fmt.Sprint(err)) {
		env.Valid("C18.c/decryption key extracts the message", env.EqG(p.Value(), mv))
	}
}

// C18Cases builds the case list (E2 part: Pedersen, trapdoor, IND-CPA commitments).
func C18Cases(tier string, seed int64) []Case {
	var cases []Case
	cases = append(cases, both("C18/pedersen", map[string]any{"scheme": "pedersen", "h": "arbitrary ∉{1,g}"},
		func(e Env[*symalg.G, *symalg.F]) { c18Pedersen(e) },
		func(e Env[*k256.Point, *k256.Scalar]) { c18Pedersen(e) }))
	lams := []string{"2", "3", "18446744073709551629", "115792089237316195423570985008687907852837564279074904382605163141518161494335"}
	for _, l := range lams {
		lam, _ := new(big.Int).SetString(l, 10)
		cases = append(cases, both("C18/pedersen-trapdoor/λ="+l, map[string]any{"scheme": "pedersen-trapdoor", "lambda": l},
			func(e Env[*symalg.G, *symalg.F]) { c18Trapdoor(e, lam) },
			func(e Env[*k256.Point, *k256.Scalar]) { c18Trapdoor(e, lam) }))
	}
	cases = append(cases, both("C18/indcpacom-elgamal", map[string]any{"scheme": "indcpacom over elgamal"},
		func(e Env[*symalg.G, *symalg.F]) { c18IndCPA(e) },
		func(e Env[*k256.Point, *k256.Scalar]) { c18IndCPA(e) }))
	return cases
}
