package e2

import (
	"fmt"
	"math/big"
	"math/rand"
	"slices"

	"github.com/bronlabs/bron-crypto/pkg/base/algebra"
	"github.com/bronlabs/bron-crypto/pkg/base/curves/k256"
	"github.com/bronlabs/bron-crypto/pkg/base/mat"
	"github.com/bronlabs/bron-crypto/pkg/base/polynomials"
	"github.com/bronlabs/bron-crypto/pkg/base/polynomials/interpolation/birkhoff"
	"github.com/bronlabs/bron-crypto/pkg/base/polynomials/interpolation/lagrange"
	"github.com/bronlabs/bron-crypto/pkg/base/polynomials/interpolation/vandermonde"

	"verif/engine/symalg"
)

// matSpec is a concrete matrix of the corpus; entries are small integers, negative = q - |v|,
// or big "random-looking" constants.
type matSpec struct {
	M, N int
	E    [][]int64
	Name string
}

func buildSpec[S algebra.PrimeFieldElement[S]](s matSpec, env interface{ Const(*big.Int) S }) [][]S {
	out := make([][]S, s.M)
	for i := range out {
		out[i] = make([]S, s.N)
		for j := range out[i] {
			out[i][j] = env.Const(big.NewInt(s.E[i][j]))
		}
	}
	return out
}

func matrixCorpus(tier string, seed int64) []matSpec {
	rng := rand.New(rand.NewSource(seed + 23))
	vals := []int64{0, 0, 1, 1, 2, -1, 3, -2, 1 << 40, 7919}
	var out []matSpec
	per := 5
	maxDim := 3
	if tier == "thorough" {
		per = 30
		maxDim = 4
	}
	for m := 1; m <= maxDim; m++ {
		for n := 1; n <= maxDim; n++ {
			for k := 0; k < per; k++ {
				e := make([][]int64, m)
				for i := range e {
					e[i] = make([]int64, n)
					for j := range e[i] {
						e[i][j] = vals[rng.Intn(len(vals))]
					}
				}
				kind := "random"
				switch k % 5 {
				case 1: // rank deficient: duplicate / combine rows
					if m > 1 {
						for j := 0; j < n; j++ {
							e[m-1][j] = e[0][j] * 2
						}
						kind = "row-dependent"
					}
				case 2: // zero column
					if n > 1 {
						c := rng.Intn(n)
						for i := 0; i < m; i++ {
							e[i][c] = 0
						}
						kind = "zero-column"
					}
				case 3: // leading zeros (pivot search must look below)
					e[0][0] = 0
					kind = "zero-leading"
				case 4: // dependent columns
					if n > 1 {
						for i := 0; i < m; i++ {
							e[i][n-1] = e[i][0] * 3
						}
						kind = "column-dependent"
					}
				}
				out = append(out, matSpec{M: m, N: n, E: e, Name: fmt.Sprintf("%dx%d/%s/%v", m, n, kind, e)})
			}
		}
	}
	return out
}

func newMatrix[S algebra.PrimeFieldElement[S]](f algebra.PrimeField[S], rows [][]S) (*mat.Matrix[S], error) {
	mod, err := mat.NewMatrixModule(uint(len(rows)), uint(len(rows[0])), f)
	if err != nil {
		return nil, err
	}
	return mod.New(rows)
}

// c20Solve: concrete matrix, SYMBOLIC right-hand side. Success path: M·x = b valid. Failure path:
// no solution exists (∃x': M·x' = b is unsat under the path condition).
func c20Solve[E algebra.PrimeGroupElement[E, S], S algebra.PrimeFieldElement[S]](env Env[E, S], spec matSpec) {
	f := env.Field()
	rows := buildSpec[S](spec, env)
	M, err := newMatrix(f, rows)
	if !env.Check("C20.a/setup", err == nil, fmt.Sprint(err)) {
		return
	}
	// ---- SolveRight: M x = b
	b := make([]S, spec.M)
	for i := range b {
		b[i] = env.Scalar(fmt.Sprintf("b%d", i))
	}
	colMod, _ := mat.NewMatrixModule(uint(spec.M), 1, f)
	bcol, _ := colMod.NewRowMajor(b...)
	x, err := mat.SolveRight(M, bcol)
	if err == nil {
		env.Reach("solve-right-success")
		xs := slices.Collect(x.Iter())
		env.Check("C20.a/solution-length", len(xs) == spec.N, "wrong solution length")
		var eqs []symalg.Pred
		for i := 0; i < spec.M; i++ {
			acc := f.Zero()
			for j := 0; j < spec.N && j < len(xs); j++ {
				acc = acc.Add(rows[i][j].Mul(xs[j]))
			}
			eqs = append(eqs, env.EqF(acc, b[i]))
		}
		env.Valid("C20.a/SolveRight: M·x=b", symalg.And(eqs...))
	} else {
		env.Reach("solve-right-failure")
		// (also evaluated in concrete runs: under the solver's model — b in the column span, x' a
		// solution — the replay reproduces the violation; under generic values it holds)
		{
			var eqs []symalg.Pred
			xp := make([]S, spec.N)
			for j := range xp {
				xp[j] = env.Scalar(fmt.Sprintf("xprime%d", j))
			}
			for i := 0; i < spec.M; i++ {
				acc := f.Zero()
				for j := 0; j < spec.N; j++ {
					acc = acc.Add(rows[i][j].Mul(xp[j]))
				}
				eqs = append(eqs, env.EqF(acc, b[i]))
			}
			env.Valid("C20.a/SolveRight fails ⇒ no solution exists", symalg.Not(symalg.And(eqs...)))
		}
	}
	// ---- SolveLeft: y M = r
	r := make([]S, spec.N)
	for j := range r {
		r[j] = env.Scalar(fmt.Sprintf("r%d", j))
	}
	rowMod, _ := mat.NewMatrixModule(1, uint(spec.N), f)
	rrow, _ := rowMod.NewRowMajor(r...)
	y, err := mat.SolveLeft(M, rrow)
	if err == nil {
		env.Reach("solve-left-success")
		ys := slices.Collect(y.Iter())
		env.Check("C20.a/left-solution-length", len(ys) == spec.M, "wrong solution length")
		var eqs []symalg.Pred
		for j := 0; j < spec.N; j++ {
			acc := f.Zero()
			for i := 0; i < spec.M && i < len(ys); i++ {
				acc = acc.Add(ys[i].Mul(rows[i][j]))
			}
			eqs = append(eqs, env.EqF(acc, r[j]))
		}
		env.Valid("C20.a/SolveLeft: y·M=r", symalg.And(eqs...))
	} else {
		env.Reach("solve-left-failure")
		{
			var eqs []symalg.Pred
			yp := make([]S, spec.M)
			for i := range yp {
				yp[i] = env.Scalar(fmt.Sprintf("yprime%d", i))
			}
			for j := 0; j < spec.N; j++ {
				acc := f.Zero()
				for i := 0; i < spec.M; i++ {
					acc = acc.Add(yp[i].Mul(rows[i][j]))
				}
				eqs = append(eqs, env.EqF(acc, r[j]))
			}
			env.Valid("C20.a/SolveLeft fails ⇒ no solution exists", symalg.Not(symalg.And(eqs...)))
		}
	}
}

// c20Square: inverse, determinant, products, transpose for a concrete square A with symbolic
// vectors / second factor.
func c20Square[E algebra.PrimeGroupElement[E, S], S algebra.PrimeFieldElement[S]](env Env[E, S], spec matSpec) {
	f := env.Field()
	n := spec.N
	rows := buildSpec[S](spec, env)
	alg, err := mat.NewMatrixAlgebra(uint(n), f)
	if !env.Check("C20.b/setup", err == nil, fmt.Sprint(err)) {
		return
	}
	A, err := alg.New(rows)
	if !env.Check("C20.b/setup", err == nil, fmt.Sprint(err)) {
		return
	}
	// symbolic B and v
	brows := make([][]S, n)
	v := make([]S, n)
	for i := range brows {
		brows[i] = make([]S, n)
		for j := range brows[i] {
			brows[i][j] = env.Scalar(fmt.Sprintf("B%d%d", i, j))
		}
		v[i] = env.Scalar(fmt.Sprintf("v%d", i))
	}
	B, _ := alg.New(brows)
	// product against an independent triple loop, transpose law
	AB := A.Mul(B)
	var prodEq, trEq []symalg.Pred
	ABt := AB.Transpose()
	BtAt := B.Transpose().Mul(A.Transpose())
	for i := 0; i < n; i++ {
		for j := 0; j < n; j++ {
			acc := f.Zero()
			for k := 0; k < n; k++ {
				acc = acc.Add(rows[i][k].Mul(brows[k][j]))
			}
			got, _ := AB.Get(i, j)
			prodEq = append(prodEq, env.EqF(got, acc))
			l, _ := ABt.Get(i, j)
			rr, _ := BtAt.Get(i, j)
			trEq = append(trEq, env.EqF(l, rr))
			t, _ := ABt.Get(j, i)
			trEq = append(trEq, env.EqF(t, got))
		}
	}
	env.Valid("C20.b/product=Σ a_ik·b_kj", symalg.And(prodEq...))
	env.Valid("C20.b/(AB)ᵀ=BᵀAᵀ", symalg.And(trEq...))

	det := A.Determinant()
	inv, ierr := A.TryInv()
	// the solver as independent oracle for singularity: ∃ w ≠ 0: A·w = 0
	if env.Symbolic() {
		w := make([]S, n)
		var kern, nz []symalg.Pred
		for i := range w {
			w[i] = env.Scalar(fmt.Sprintf("w%d", i))
			nz = append(nz, symalg.Not(env.EqF(w[i], f.Zero())))
		}
		for i := 0; i < n; i++ {
			acc := f.Zero()
			for j := 0; j < n; j++ {
				acc = acc.Add(rows[i][j].Mul(w[j]))
			}
			kern = append(kern, env.EqF(acc, f.Zero()))
		}
		nontrivialKernel := symalg.And(symalg.And(kern...), symalg.Or(nz...))
		if ierr == nil {
			// for n ≥ 3 the query is an inconsistent system of n linear congruences in n unknowns, on
			// which z3 and cvc5 often answer `unknown` (23 of 30 thorough 4×4 cases, 3 of the 3×3 ones):
			// the solver oracle is stated for n ≤ 2; for larger n invertibility is covered by the
			// A·A⁻¹ = I clause below
			if n <= 2 {
				env.Valid("C20.b/TryInv succeeds ⇒ kernel trivial", symalg.Not(nontrivialKernel))
			} else {
				env.Reach("C20.b/kernel oracle skipped for n ≥ 3 (stated bound)")
			}
		} else {
			env.Witness("C20.b/TryInv refuses ⇒ kernel non-trivial", nontrivialKernel)
		}
	}
	env.Check("C20.b/det≠0 ⇔ invertible", det.IsZero() == (ierr != nil), fmt.Sprintf("det=%v but TryInv err=%v", det, ierr))
	if ierr == nil {
		env.Reach("invertible")
		// A⁻¹(A v) = v
		var eqs []symalg.Pred
		Av := make([]S, n)
		for i := 0; i < n; i++ {
			acc := f.Zero()
			for j := 0; j < n; j++ {
				acc = acc.Add(rows[i][j].Mul(v[j]))
			}
			Av[i] = acc
		}
		for i := 0; i < n; i++ {
			acc := f.Zero()
			for j := 0; j < n; j++ {
				e, _ := inv.Get(i, j)
				acc = acc.Add(e.Mul(Av[j]))
			}
			eqs = append(eqs, env.EqF(acc, v[i]))
		}
		env.Valid("C20.b/A⁻¹(Av)=v", symalg.And(eqs...))
		env.Check("C20.b/A·A⁻¹=I", A.Mul(inv).IsIdentity(), "A·A⁻¹ is not the identity")
	} else {
		env.Reach("singular")
	}
	// determinant is multiplicative on concrete factors: det(A·Aᵀ) = det(A)²  and det(Aᵀ)=det(A)
	env.Check("C20.b/det(Aᵀ)=det(A)", A.Transpose().Determinant().Equal(det), "det(Aᵀ) ≠ det(A)")
	env.Check("C20.b/det(A·Aᵀ)=det(A)²", A.Mul(A.Transpose()).Determinant().Equal(det.Mul(det)), "det not multiplicative")
	// lifting commutes with the scalar computation: (A·v)·G = LeftAction(A, v·G)
	g := env.Group().Generator()
	colMod, _ := mat.NewMatrixModule(uint(n), 1, f)
	vcol, _ := colMod.NewRowMajor(v...)
	lifted, err := mat.Lift(vcol, g)
	if env.Check("C20.d/lift-ok", err == nil, fmt.Sprint(err)) {
		act, err := mat.LeftAction(A.AsRectangular(), lifted)
		if env.Check("C20.d/left-action-ok", err == nil, fmt.Sprint(err)) {
			var eqs []symalg.Pred
			for i := 0; i < n; i++ {
				acc := f.Zero()
				for j := 0; j < n; j++ {
					acc = acc.Add(rows[i][j].Mul(v[j]))
				}
				got, _ := act.Get(i, 0)
				eqs = append(eqs, env.EqG(got, g.ScalarOp(acc)))
			}
			env.Valid("C20.d/LeftAction(A,[v]G)=[A·v]G", symalg.And(eqs...))
		}
		// right action: ([v]G)ᵀ · A  = [vᵀA]G
		rowMod, _ := mat.NewMatrixModule(1, uint(n), f)
		vrow, _ := rowMod.NewRowMajor(v...)
		lrow, err := mat.Lift(vrow, g)
		if err == nil {
			ract, err := mat.RightAction(lrow, A.AsRectangular())
			if env.Check("C20.d/right-action-ok", err == nil, fmt.Sprint(err)) {
				var eqs []symalg.Pred
				for j := 0; j < n; j++ {
					acc := f.Zero()
					for i := 0; i < n; i++ {
						acc = acc.Add(v[i].Mul(rows[i][j]))
					}
					got, _ := ract.Get(0, j)
					eqs = append(eqs, env.EqG(got, g.ScalarOp(acc)))
				}
				env.Valid("C20.d/RightAction([vᵀ]G,A)=[vᵀA]G", symalg.And(eqs...))
			}
		}
	}
}

// nodeSets for interpolation: distinct, non-zero, unsorted, sparse, large.
var nodeSets = [][]uint64{
	{1, 2},
	{2, 1, 3},
	{7, 2, 77, 5},
	{1<<32 + 1, 3, 1<<63 + 5},
	{5, 1, 4, 2, 3},
	{1<<63 + 5, 1<<63 + 6, 9, 1 << 40, 2},
}

// c20Interpolate: symbolic coefficients (degree < #nodes), concrete distinct nodes.
func c20Interpolate[E algebra.PrimeGroupElement[E, S], S algebra.PrimeFieldElement[S]](env Env[E, S], nodesU []uint64) {
	f := env.Field()
	n := len(nodesU)
	nodes := make([]S, n)
	for i, u := range nodesU {
		nodes[i] = f.FromUint64(u)
	}
	coeffs := make([]S, n)
	for i := range coeffs {
		coeffs[i] = env.Scalar(fmt.Sprintf("a%d", i))
	}
	ring, err := polynomials.NewPolynomialRing(f)
	if !env.Check("C20.c/setup", err == nil, fmt.Sprint(err)) {
		return
	}
	P, err := ring.New(coeffs...)
	if !env.Check("C20.c/setup", err == nil, fmt.Sprint(err)) {
		return
	}
	// independent Horner-free evaluation
	evalAt := func(x S) S {
		acc := f.Zero()
		pw := f.One()
		for _, c := range coeffs {
			acc = acc.Add(c.Mul(pw))
			pw = pw.Mul(x)
		}
		return acc
	}
	vals := make([]S, n)
	for i := range nodes {
		vals[i] = P.Eval(nodes[i])
		env.Valid("C20.d/Eval=Σ a_k x^k", env.EqF(vals[i], evalAt(nodes[i])))
	}
	ats := []S{f.Zero(), f.FromUint64(11), f.FromUint64(1<<63 + 99), nodes[0]}
	for k, at := range ats {
		got, err := lagrange.InterpolateAt(nodes, vals, at)
		if env.Check("C20.c/lagrange-ok", err == nil, fmt.Sprint(err)) {
			env.Valid(fmt.Sprintf("C20.c/lagrange.InterpolateAt recovers P(x%d)", k), env.EqF(got, evalAt(at)))
		}
		// in the exponent
		g := env.Group().Generator()
		lv := make([]E, n)
		for i := range vals {
			lv[i] = g.ScalarOp(vals[i])
		}
		var fm algebra.FiniteModule[E, S] = env.Group()
		ge, err := lagrange.InterpolateInExponentAt(fm, nodes, lv, at)
		if env.Check("C20.c/lagrange-exp-ok", err == nil, fmt.Sprint(err)) {
			env.Valid("C20.c/lagrange in the exponent commutes with lifting", env.EqG(ge, g.ScalarOp(evalAt(at))))
		}
	}
	// Vandermonde interpolation recovers the coefficients themselves
	Q, err := vandermonde.Interpolate(nodes, vals, f.Zero())
	if env.Check("C20.c/vandermonde-ok", err == nil, fmt.Sprint(err)) {
		qc := Q.Coefficients()
		var eqs []symalg.Pred
		for i := 0; i < n; i++ {
			var c S
			if i < len(qc) {
				c = qc[i]
			} else {
				c = f.Zero()
			}
			eqs = append(eqs, env.EqF(c, coeffs[i]))
		}
		env.Valid("C20.c/vandermonde.Interpolate recovers every coefficient", symalg.And(eqs...))
	}
	// Birkhoff: the generalised Vandermonde matrix rows equal derivative evaluations
	// (phi(c,x,j) = c!/(c-j)!·x^(c-j)), checked against an independent derivative formula; and
	// solving it with mat.SolveRight recovers the coefficients for an admissible pattern.
	js := make([]uint64, n)
	for i := range js {
		js[i] = uint64(i % 2) // mix of values (j=0) and first derivatives (j=1)
	}
	js[0] = 0
	BM, err := birkhoff.BuildVandermondeMatrix(nodes, js, n)
	if env.Check("C20.c/birkhoff-matrix-ok", err == nil, fmt.Sprint(err)) {
		var eqs []symalg.Pred
		for r := 0; r < n; r++ {
			acc := f.Zero()
			for c := 0; c < n; c++ {
				e, _ := BM.Get(r, c)
				acc = acc.Add(e.Mul(coeffs[c]))
			}
			// independent j-th derivative at x_r
			want := f.Zero()
			for c := int(js[r]); c < n; c++ {
				fall := uint64(1)
				for t := 0; t < int(js[r]); t++ {
					fall *= uint64(c - t)
				}
				pw := f.One()
				for t := 0; t < c-int(js[r]); t++ {
					pw = pw.Mul(nodes[r])
				}
				want = want.Add(coeffs[c].Mul(f.FromUint64(fall)).Mul(pw))
			}
			eqs = append(eqs, env.EqF(acc, want))
		}
		env.Valid("C20.c/Birkhoff matrix row = derivative evaluation", symalg.And(eqs...))
		// library derivative agrees with it as well
		d1 := P.Derivative()
		for r := 0; r < n; r++ {
			if js[r] == 1 {
				acc := f.Zero()
				for c := 0; c < n; c++ {
					e, _ := BM.Get(r, c)
					acc = acc.Add(e.Mul(coeffs[c]))
				}
				env.Valid("C20.d/Polynomial.Derivative.Eval = Birkhoff row", env.EqF(d1.Eval(nodes[r]), acc))
			}
		}
	}
	// polynomial ring laws at a symbolic point
	x := env.Scalar("x")
	c2 := make([]S, n)
	for i := range c2 {
		c2[i] = env.Scalar(fmt.Sprintf("c%d", i))
	}
	Q2, _ := ring.New(c2...)
	env.Valid("C20.d/(P+Q)(x)=P(x)+Q(x)", env.EqF(P.Add(Q2).Eval(x), P.Eval(x).Add(Q2.Eval(x))))
	if n <= 4 {
		env.Valid("C20.d/(P·Q)(x)=P(x)·Q(x)", env.EqF(P.Mul(Q2).Eval(x), P.Eval(x).Mul(Q2.Eval(x))))
		env.Valid("C20.d/(PQ)'=P'Q+PQ'", env.EqF(P.Mul(Q2).Derivative().Eval(x), P.Derivative().Eval(x).Mul(Q2.Eval(x)).Add(P.Eval(x).Mul(Q2.Derivative().Eval(x)))))
	}
	// lifted polynomial commutes with evaluation
	g := env.Group().Generator()
	LP, err := polynomials.LiftPolynomial[E, S](P, g)
	if env.Check("C20.d/lift-polynomial-ok", err == nil, fmt.Sprint(err)) {
		env.Valid("C20.d/LiftPolynomial(P,G).Eval(x)=[P(x)]G", env.EqG(LP.Eval(x), g.ScalarOp(P.Eval(x))))
	}
}

// c20DetSymbolic: determinant of an n×n matrix whose first n−1 columns are the concrete entries of
// spec (so that every pivot the elimination divides by is concrete) and whose LAST column is
// symbolic, against the Leibniz formula, on every path. Sparse specs make the elimination swap
// non-adjacent rows.
func c20DetSymbolic[E algebra.PrimeGroupElement[E, S], S algebra.PrimeFieldElement[S]](env Env[E, S], spec matSpec) {
	f := env.Field()
	n := spec.N
	rows := buildSpec[S](spec, env)
	for i := range rows {
		rows[i][n-1] = env.Scalar(fmt.Sprintf("s%d", i))
	}
	alg, err := mat.NewMatrixAlgebra(uint(n), f)
	if !env.Check("C20.b/detsym: setup", err == nil, fmt.Sprint(err)) {
		return
	}
	A, err := alg.New(rows)
	if !env.Check("C20.b/detsym: setup", err == nil, fmt.Sprint(err)) {
		return
	}
	// Leibniz: Σ_σ sgn(σ) Π a[i][σ(i)]
	want := f.Zero()
	perm := make([]int, n)
	for i := range perm {
		perm[i] = i
	}
	var rec func(k int, sign int)
	rec = func(k int, sign int) {
		if k == n {
			term := f.One()
			for i := 0; i < n; i++ {
				term = term.Mul(rows[i][perm[i]])
			}
			if sign < 0 {
				term = term.Neg()
			}
			want = want.Add(term)
			return
		}
		for i := k; i < n; i++ {
			perm[k], perm[i] = perm[i], perm[k]
			sg := sign
			if i != k {
				sg = -sign
			}
			rec(k+1, sg)
			perm[k], perm[i] = perm[i], perm[k]
		}
	}
	rec(0, 1)
	det := A.Determinant()
	env.Valid("C20.b/determinant with a symbolic last column = Leibniz formula (every path)", env.EqF(det, want))
	env.Reach("detsym-done")
}

// sparseSquares: n×n matrices with many zeros (first non-zero of a column often two or more rows
// below the diagonal).
func sparseSquares(tier string, seed int64) []matSpec {
	rng := rand.New(rand.NewSource(seed + 101))
	vals := []int64{0, 0, 0, 1, 2, -1, 3}
	var out []matSpec
	per := 12
	if tier == "thorough" {
		per = 60
	}
	for _, n := range []int{3, 4, 5} {
		// handcrafted: anti-diagonal-like and cyclic-shift supports
		anti := make([][]int64, n)
		cyc := make([][]int64, n)
		for i := 0; i < n; i++ {
			anti[i] = make([]int64, n)
			cyc[i] = make([]int64, n)
			anti[i][n-1-i] = int64(i + 2)
			cyc[i][(i+n-2)%n] = int64(2*i + 1)
		}
		out = append(out, matSpec{M: n, N: n, E: anti, Name: fmt.Sprintf("%dx%d/anti-diagonal", n, n)}, matSpec{M: n, N: n, E: cyc, Name: fmt.Sprintf("%dx%d/cyclic-shift-2", n, n)})
		for k := 0; k < per; k++ {
			e := make([][]int64, n)
			for i := range e {
				e[i] = make([]int64, n)
				for j := range e[i] {
					e[i][j] = vals[rng.Intn(len(vals))]
				}
			}
			// force the first entries of column 0 to zero in half of the cases
			if k%2 == 0 {
				e[0][0], e[1][0] = 0, 0
				e[2][0] = 1 + int64(rng.Intn(3))
			}
			out = append(out, matSpec{M: n, N: n, E: e, Name: fmt.Sprintf("%dx%d/sparse/%v", n, n, e)})
		}
	}
	return out
}

// c20BirkhoffHigh: generalised Vandermonde matrix of high degree and high derivative orders with
// SYMBOLIC nodes: entry (r,c) = c!/(c−j_r)! · x_r^(c−j_r) (0 for c < j_r), the factorial computed
// in the field.
func c20BirkhoffHigh[E algebra.PrimeGroupElement[E, S], S algebra.PrimeFieldElement[S]](env Env[E, S], cols int, orders []uint64) {
	f := env.Field()
	xs := make([]S, len(orders))
	for i := range xs {
		xs[i] = env.Scalar(fmt.Sprintf("x%d", i))
	}
	BM, err := birkhoff.BuildVandermondeMatrix(xs, orders, cols)
	if !env.Check("C20.c/birkhoff-high: matrix-ok", err == nil, fmt.Sprint(err)) {
		return
	}
	var eqs []symalg.Pred
	for r := range xs {
		j := int(orders[r])
		for c := 0; c < cols; c++ {
			e, _ := BM.Get(r, c)
			want := f.Zero()
			if c >= j {
				want = f.One()
				for t := 0; t < j; t++ {
					want = want.Mul(f.FromUint64(uint64(c - t)))
				}
				for t := 0; t < c-j; t++ {
					want = want.Mul(xs[r])
				}
			}
			eqs = append(eqs, env.EqF(e, want))
		}
	}
	env.Valid("C20.c/Birkhoff matrix entry = c!/(c−j)!·x^(c−j) at high degree and order", symalg.And(eqs...))
	env.Reach("birkhoff-high-done")
}

// c20BirkhoffInterp: birkhoff.Interpolate / InterpolateInExponent on concrete nodes and derivative
// orders with SYMBOLIC values: the interpolant's j_i-th derivative at x_i is y_i, and interpolation
// in the exponent returns exactly the lifted coefficients (including the single-node case, whose
// 1×1 system has no minors).
func c20BirkhoffInterp[E algebra.PrimeGroupElement[E, S], S algebra.PrimeFieldElement[S]](env Env[E, S], nodesU []uint64, orders []uint64) {
	f := env.Field()
	g := env.Group().Generator()
	n := len(nodesU)
	xs, ys := make([]S, n), make([]S, n)
	lifted := make([]E, n)
	for i := range xs {
		xs[i] = f.FromUint64(nodesU[i])
		ys[i] = env.Scalar(fmt.Sprintf("y%d", i))
		lifted[i] = g.ScalarOp(ys[i])
	}
	// in the exponent, values symbolic: the interpolant meets every interpolation condition
	pe, err := birkhoff.InterpolateInExponent(xs, orders, lifted)
	if !env.Check("C20.c/birkhoff interpolation in the exponent succeeds on a poised node set", err == nil, fmt.Sprint(err)) {
		return
	}
	var eqs []symalg.Pred
	for i := range xs {
		d := pe
		for t := uint64(0); t < orders[i]; t++ {
			d = d.Derivative()
		}
		eqs = append(eqs, env.EqG(d.Eval(xs[i]), lifted[i]))
	}
	env.Valid("C20.c/the Birkhoff interpolant in the exponent has derivative j_i equal to [y_i]G at x_i", symalg.And(eqs...))
	env.Check("C20.c/the interpolant has at most as many coefficients as nodes", len(pe.Coefficients()) <= n, fmt.Sprint(len(pe.Coefficients())))
	// scalar interpolation on concrete values (Cramer's rule with a symbolic column would pivot on
	// symbolic entries): same conditions, and its lift equals the interpolation of the lifted values
	cy := make([]S, n)
	cl := make([]E, n)
	for i := range cy {
		cy[i] = f.FromUint64(uint64(3*i + 1))
		cl[i] = g.ScalarOp(cy[i])
	}
	p, err := birkhoff.Interpolate(xs, orders, cy)
	if env.Check("C20.c/scalar birkhoff interpolation succeeds on a poised node set", err == nil, fmt.Sprint(err)) {
		var ceqs []symalg.Pred
		for i := range xs {
			d := p
			for t := uint64(0); t < orders[i]; t++ {
				d = d.Derivative()
			}
			ceqs = append(ceqs, env.EqF(d.Eval(xs[i]), cy[i]))
		}
		if pc, err := birkhoff.InterpolateInExponent(xs, orders, cl); env.Check("C20.c/birkhoff interpolation in the exponent succeeds where the scalar one does", err == nil, fmt.Sprint(err)) {
			cs, ce := p.Coefficients(), pc.Coefficients()
			for i := 0; i < n; i++ {
				a, b := f.Zero(), env.Group().OpIdentity()
				if i < len(cs) {
					a = cs[i]
				}
				if i < len(ce) {
					b = ce[i]
				}
				ceqs = append(ceqs, env.EqG(b, g.ScalarOp(a)))
			}
		}
		env.Valid("C20.c/scalar Birkhoff interpolant meets its conditions and lifts to the interpolant in the exponent", symalg.And(ceqs...))
	}
	env.Reach("birkhoff-interp-done")
}

// C20Cases builds the case list.
func C20Cases(tier string, seed int64) []Case {
	var cases []Case
	for _, spec := range matrixCorpus(tier, seed) {
		s := spec
		cases = append(cases, both("C20/solve/"+s.Name, map[string]any{"matrix": s.E, "rhs": "symbolic"},
			func(e Env[*symalg.G, *symalg.F]) { c20Solve(e, s) },
			func(e Env[*k256.Point, *k256.Scalar]) { c20Solve(e, s) }))
		if s.M == s.N {
			cases = append(cases, both("C20/square/"+s.Name, map[string]any{"matrix": s.E},
				func(e Env[*symalg.G, *symalg.F]) { c20Square(e, s) },
				func(e Env[*k256.Point, *k256.Scalar]) { c20Square(e, s) }))
		}
	}
	// determinants with a symbolic last column on sparse matrices
	for _, spec := range sparseSquares(tier, seed) {
		sp := spec
		c := both("C20/det-symbolic/"+sp.Name, map[string]any{"matrix": sp.E, "last column": "symbolic"},
			func(e Env[*symalg.G, *symalg.F]) { c20DetSymbolic(e, sp) }, nil)
		c.MustReach = []string{"detsym-done"}
		cases = append(cases, c)
	}
	for _, hc := range []struct {
		cols   int
		orders []uint64
	}{{25, []uint64{0, 1, 2, 19, 20, 21, 24}}, {30, []uint64{20, 25, 29}}, {66, []uint64{0, 21, 40, 65}}} {
		h := hc
		c := both(fmt.Sprintf("C20/birkhoff-high/cols=%d/orders=%v", h.cols, h.orders), map[string]any{"cols": h.cols, "derivative orders": h.orders, "nodes": "symbolic"},
			func(e Env[*symalg.G, *symalg.F]) { c20BirkhoffHigh(e, h.cols, h.orders) }, nil)
		c.MustReach = []string{"birkhoff-high-done"}
		cases = append(cases, c)
	}
	for _, bc := range []struct{ nodes, orders []uint64 }{
		{[]uint64{5}, []uint64{0}},
		{[]uint64{1, 2}, []uint64{0, 0}},
		{[]uint64{1, 2}, []uint64{0, 1}},
		{[]uint64{2, 7, 3}, []uint64{0, 1, 0}},
		{[]uint64{7, 2, 77, 5}, []uint64{0, 0, 1, 2}},
	} {
		b := bc
		c := both(fmt.Sprintf("C20/birkhoff-interpolate/nodes=%v/orders=%v", b.nodes, b.orders), map[string]any{"nodes": b.nodes, "derivative orders": b.orders, "values": "symbolic"},
			func(e Env[*symalg.G, *symalg.F]) { c20BirkhoffInterp(e, b.nodes, b.orders) },
			func(e Env[*k256.Point, *k256.Scalar]) { c20BirkhoffInterp(e, b.nodes, b.orders) })
		c.MustReach = []string{"birkhoff-interp-done"}
		cases = append(cases, c)
	}
	for _, ns := range nodeSets {
		n := ns
		if tier != "thorough" && len(n) > 4 {
			continue
		}
		cases = append(cases, both(fmt.Sprintf("C20/interpolate/nodes=%v", n), map[string]any{"nodes": n, "coefficients": "symbolic"},
			func(e Env[*symalg.G, *symalg.F]) { c20Interpolate(e, n) },
			func(e Env[*k256.Point, *k256.Scalar]) { c20Interpolate(e, n) }))
	}
	return cases
}
