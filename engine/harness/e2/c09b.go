package e2

import (
	"crypto/sha256"
	"encoding/binary"
	"fmt"

	"github.com/bronlabs/bron-crypto/pkg/base"
	"github.com/bronlabs/bron-crypto/pkg/base/curves"
	rvole_softspoken "github.com/bronlabs/bron-crypto/pkg/mpc/rvole/softspoken"
	"github.com/bronlabs/bron-crypto/pkg/mpc/sharing"
	"github.com/bronlabs/bron-crypto/pkg/ot"
	"github.com/bronlabs/bron-crypto/pkg/ot/base/vsot"
	"github.com/bronlabs/bron-crypto/pkg/ot/extension/softspoken"

	"verif/engine/symalg"
)

// RVOLE over the SoftSpoken OT extension (pkg/mpc/rvole/softspoken), standalone: the base-OT seeds
// are concrete (a fixed pseudo-random corpus), the extension runs for real on bytes, Bob's choice
// bits β are CHOSEN by the harness (his only randomness), Alice's inputs a_i and her random draws
// are symbolic. Honest run: Bob accepts and c_i + d_i = a_i·b for every i. Deviating Alice: one
// entry of ATilde (a data column or a check column, in a row where β_j = 0 or β_j = 1), one entry
// of η, or one byte of μ is altered by a symbolic δ ≠ 0 (resp. flipped): Bob aborts.

type constReader struct{ b byte }

func (r constReader) Read(p []byte) (int, error) {
	for i := range p {
		p[i] = r.b
	}
	return len(p), nil
}

func rvoleSoftSeeds(tag string) (*vsot.SenderOutput, *vsot.ReceiverOutput) {
	stream := func(i, b int) []byte {
		var ctr [16]byte
		binary.BigEndian.PutUint64(ctr[:8], uint64(i))
		binary.BigEndian.PutUint64(ctr[8:], uint64(b))
		h := sha256.Sum256(append([]byte("c09-rvole-softspoken-seed:"+tag), ctr[:]...))
		return h[:]
	}
	rs := &vsot.ReceiverOutput{ReceiverOutput: ot.ReceiverOutput[[]byte]{Choices: make([]byte, softspoken.Kappa/8), Messages: make([][][]byte, softspoken.Kappa)}}
	ss := &vsot.SenderOutput{SenderOutput: ot.SenderOutput[[]byte]{Messages: make([][2][][]byte, softspoken.Kappa)}}
	copy(rs.Choices, stream(-1, 0))
	for i := 0; i < softspoken.Kappa; i++ {
		ss.Messages[i][0] = [][]byte{stream(i, 0)}
		ss.Messages[i][1] = [][]byte{stream(i, 1)}
		c := (rs.Choices[i/8] >> (i % 8)) & 1
		rs.Messages[i] = ss.Messages[i][c]
	}
	return ss, rs
}

// rvoleSoftFault: Kind "" = honest; "atilde" (Row, Col), "eta" (Col = k), "mu" (Col = byte index).
type rvoleSoftFault struct {
	Kind     string
	Row, Col int
}

func (f rvoleSoftFault) String() string {
	if f.Kind == "" {
		return "honest"
	}
	return fmt.Sprintf("%s[%d][%d]", f.Kind, f.Row, f.Col)
}

func c09RVOLESoft(env *SymEnv, l int, beta byte, fault rvoleSoftFault) {
	env.AssumeDrawsNonZero()
	pfx := "C09.rvole-softspoken"
	group := env.R.Group()
	suite, err := rvole_softspoken.NewSuite[sG, sF, sF](l, curves.Curve[sG, sF, sF](group), sha256.New)
	if !env.Check(pfx+"/suite-ok", err == nil, fmt.Sprint(err)) {
		return
	}
	tag := fmt.Sprintf("c09/rvole-soft/%d/%02x/%s", l, beta, fault)
	ctxs, err := makeContexts(tag, []sharing.ID{1, 2})
	if !env.Check(pfx+"/contexts-ok", err == nil, fmt.Sprint(err)) {
		return
	}
	ss, rs := rvoleSoftSeeds("corpus")
	alice, e1 := rvole_softspoken.NewAlice(ctxs[1], suite, rs, env.Reader("alice"))
	bob, e2 := rvole_softspoken.NewBob(ctxs[2], suite, ss, constReader{beta})
	if !env.Check(pfx+"/participants-ok", e1 == nil && e2 == nil, fmt.Sprint(e1, e2)) {
		return
	}
	r1, b, err := bob.Round1()
	if !env.Check(pfx+"/round1-ok", err == nil, fmt.Sprint(err)) {
		return
	}
	a := make([]sF, l)
	for i := range a {
		a[i] = env.Scalar(fmt.Sprintf("a%d", i))
	}
	r2, c, err := alice.Round2(r1, a)
	if !env.Check(pfx+"/round2-ok", err == nil, fmt.Sprint(err)) {
		return
	}
	kappa := env.R.Field().ElementSize() * 8
	xi, rho := kappa+base.CollisionResistance, (kappa+base.ComputationalSecurityBits-1)/base.ComputationalSecurityBits
	env.Check(pfx+"/message shapes", len(r2.ATilde) == xi && len(r2.ATilde[0]) == l+rho && len(r2.Eta) == rho, fmt.Sprintf("xi=%d cols=%d eta=%d", len(r2.ATilde), len(r2.ATilde[0]), len(r2.Eta)))
	if fault.Kind != "" {
		delta := env.Scalar("delta")
		env.Assume(symalg.Not(env.EqF(delta, env.Field().Zero())))
		switch fault.Kind {
		case "atilde":
			if fault.Row >= len(r2.ATilde) || fault.Col >= len(r2.ATilde[fault.Row]) {
				env.Reach("fault-not-applicable")
				return
			}
			r2.ATilde[fault.Row][fault.Col] = r2.ATilde[fault.Row][fault.Col].Add(delta)
		case "eta":
			if fault.Col >= len(r2.Eta) {
				env.Reach("fault-not-applicable")
				return
			}
			r2.Eta[fault.Col] = r2.Eta[fault.Col].Add(delta)
		case "mu":
			if fault.Col >= len(r2.Mu) {
				env.Reach("fault-not-applicable")
				return
			}
			r2.Mu[fault.Col] ^= 1
		}
		_, err := guarded(func() ([]sF, error) { return bob.Round3(r2) })
		bj := (beta >> (uint(fault.Row) % 8)) & 1
		where := "check column"
		if fault.Col < l {
			where = "data column"
		}
		if fault.Kind == "eta" && beta == 0 {
			// with every choice bit 0 Bob's input is 0 and η does not enter his check at all (his
			// consistency check binds Alice through the rows with β_j = 1; all-zero choices have
			// probability 2^-416): nothing is demanded
			env.Reach("rvole-softspoken: η is not checked when all of Bob's choice bits are 0")
			env.Reach("rvole-softspoken-fault-caught")
			return
		}
		id := fmt.Sprintf("%s/altered %s is refused by Bob", pfx, fault.Kind)
		if fault.Kind == "atilde" {
			id = fmt.Sprintf("%s/altered ATilde entry (%s, row with β=%d) is refused by Bob", pfx, where, bj)
		}
		if env.Check(id, err != nil, "Bob accepted Alice's altered message") {
			env.Check(pfx+"/the refusal is an abort, not a panic", !isPanicErr(err), fmt.Sprint(err))
		}
		env.Reach("rvole-softspoken-fault-caught")
		return
	}
	d, err := bob.Round3(r2)
	if !env.Check(pfx+"/round3-ok (Bob's consistency check accepts the honest Alice)", err == nil, fmt.Sprint(err)) {
		return
	}
	var eqs []symalg.Pred
	for i := 0; i < l; i++ {
		eqs = append(eqs, env.EqF(c[i].Add(d[i]), a[i].Mul(b)))
	}
	env.Valid(pfx+"/c_i + d_i = a_i · b for every i", symalg.And(eqs...))
	env.Reach("rvole-softspoken-done")
}

func isPanicErr(err error) bool {
	_, ok := err.(panicErr)
	return ok
}

func c09RVOLESoftCases(tier string) []Case {
	var cases []Case
	betas := []byte{0xa5}
	ls := []int{1}
	if tier == "thorough" {
		betas = []byte{0xa5, 0x00, 0xff}
		ls = []int{1, 2}
	}
	for _, l := range ls {
		for _, beta := range betas {
			ll, bb := l, beta
			cases = append(cases, Case{ID: fmt.Sprintf("C09/rvole-softspoken/L=%d/beta=%02x/honest", l, beta),
				Desc: map[string]any{"protocol": "rvole/softspoken (SoftSpoken OT extension run concretely on bytes)", "L": l, "Bob's choice bits": fmt.Sprintf("every byte %#02x", beta), "Alice's inputs and randomness": "symbolic"},
				Sym:  func(e *SymEnv) { c09RVOLESoft(e, ll, bb, rvoleSoftFault{}) }, MustReach: []string{"rvole-softspoken-done"}, NoConcreteValidation: true})
			// 0xa5 = bits 1,0,1,0,0,1,0,1 (LSB first): rows 0 and 2 have β=1, rows 1 and 3 have β=0
			var faults []rvoleSoftFault
			rows := []int{0, 1}
			if tier == "thorough" {
				rows = []int{0, 1, 2, 3, 100}
			}
			for _, row := range rows {
				for _, col := range []int{0, l, l + 1} {
					faults = append(faults, rvoleSoftFault{"atilde", row, col})
				}
			}
			faults = append(faults, rvoleSoftFault{"eta", 0, 0}, rvoleSoftFault{"eta", 0, 1}, rvoleSoftFault{"mu", 0, 0}, rvoleSoftFault{"mu", 0, 31})
			for _, ft := range faults {
				f := ft
				cases = append(cases, Case{ID: fmt.Sprintf("C09/rvole-softspoken/L=%d/beta=%02x/%s", l, beta, f),
					Desc: map[string]any{"protocol": "rvole/softspoken", "L": l, "Bob's choice bits": fmt.Sprintf("every byte %#02x", beta), "deviation": f.String(), "offset": "symbolic δ ≠ 0"},
					Sym:  func(e *SymEnv) { c09RVOLESoft(e, ll, bb, f) }, MustReach: []string{"rvole-softspoken-fault-caught"}, NoConcreteValidation: true})
			}
		}
	}
	return cases
}
