package e2

import (
	"bytes"
	"fmt"

	"github.com/bronlabs/bron-crypto/pkg/base/algebra"
	"github.com/bronlabs/bron-crypto/pkg/base/curves/k256"
	"github.com/bronlabs/bron-crypto/pkg/mpc/session"
	"github.com/bronlabs/bron-crypto/pkg/mpc/sharing"
	"github.com/bronlabs/bron-crypto/pkg/mpc/zero/przs"

	"verif/engine/symalg"
)

// c10ZeroShares: real session contexts (concrete symmetric seeds); for the full quorum and every
// sub-quorum (via SubContext) the pseudorandom zero shares over the scalar field and over the group
// sum to the identity. The pairwise PRG outputs are symbolic: both ends of a pair read the same
// bytes from their copy of the pairwise stream and therefore obtain the same variable (a PRG
// modelled as a random function of its seed).
func c10ZeroShares[E algebra.PrimeGroupElement[E, S], S algebra.PrimeFieldElement[S]](env Env[E, S], quorum []sharing.ID) {
	ctxs, err := makeContexts("c10/"+idsStr(quorum), quorum)
	if !env.Check("C10/contexts-ok", err == nil, fmt.Sprint(err)) {
		return
	}
	f := env.Field()
	group := env.Group()
	// common context facts
	var sid0 []byte
	var tr0 []byte
	for i, id := range quorum {
		c := ctxs[id]
		sid := c.SessionID()
		tb, terr := c.Clone().Transcript().ExtractBytes("c10-probe", 32)
		env.Check("C10/transcript-extract-ok", terr == nil, fmt.Sprint(terr))
		if i == 0 {
			sid0, tr0 = sid[:], tb
		} else {
			env.Check("C10/same session id for all parties", bytes.Equal(sid0, sid[:]), "session ids differ")
			env.Check("C10/same transcript state for all parties", bytes.Equal(tr0, tb), "transcript states differ")
		}
	}
	check := func(label string, members []sharing.ID, cs map[sharing.ID]*session.Context) {
		sumF := f.Zero()
		sumG := group.OpIdentity()
		for _, id := range members {
			env.SetActor(fmt.Sprint(id))
			zf, err := przs.SampleZeroShare(cs[id], algebra.FiniteGroup[S](f))
			if !env.Check("C10.a/zero-share-ok", err == nil, fmt.Sprint(err)) {
				return
			}
			zg, err := przs.SampleZeroShare(cs[id], algebra.FiniteGroup[E](group))
			if !env.Check("C10.a/zero-share-ok", err == nil, fmt.Sprint(err)) {
				return
			}
			sumF = sumF.Add(zf.Value())
			sumG = sumG.Op(zg.Value())
		}
		env.Valid("C10.a/field zero shares sum to 0 ("+label+")", env.EqF(sumF, f.Zero()))
		env.Valid("C10.a/group zero shares sum to identity ("+label+")", env.EqG(sumG, group.OpIdentity()))
	}
	env.Reach("contexts")
	check("full quorum", quorum, ctxs)
	// every sub-quorum of size ≥ 2. Parties derive their sub-contexts from ONE long-lived parent
	// context in DIFFERENT orders (party k starts at the k-th sub-quorum and walks the list
	// backwards if k is odd), as concurrent sessions would; a sub-context must not depend on what
	// was derived before it.
	var subs [][]sharing.ID
	for _, sub := range subsetsOf(quorum) {
		if len(sub) >= 2 && len(sub) < len(quorum) {
			subs = append(subs, sub)
		}
	}
	derived := map[sharing.ID]map[string]*session.Context{}
	for k, id := range quorum {
		derived[id] = map[string]*session.Context{}
		for step := 0; step < len(subs); step++ {
			i := (k + step) % len(subs)
			if k%2 == 1 {
				i = ((k-step)%len(subs) + len(subs)) % len(subs)
			}
			sub := subs[i]
			member := false
			for _, m := range sub {
				if m == id {
					member = true
				}
			}
			if !member {
				continue
			}
			sc, err := ctxs[id].SubContext(idSet(sub...))
			if env.Check("C10/subcontext-ok", err == nil, fmt.Sprint(err)) {
				derived[id][setName(sub)] = sc
			}
		}
	}
	for _, sub := range subs {
		subCtx := map[sharing.ID]*session.Context{}
		ok := true
		for _, id := range sub {
			sc, has := derived[id][setName(sub)]
			var err error
			if !has {
				err = fmt.Errorf("not derived")
			}
			if !env.Check("C10/subcontext-ok", err == nil, fmt.Sprint(err)) {
				ok = false
				break
			}
			subCtx[id] = sc
		}
		if !ok {
			continue
		}
		// agreement between members, difference from the parent
		var t0 []byte
		for i, id := range sub {
			tb, _ := subCtx[id].Clone().Transcript().ExtractBytes("c10-probe", 32)
			if i == 0 {
				t0 = tb
			} else {
				env.Check("C10/sub-context transcript agrees between members", bytes.Equal(t0, tb), "sub-context transcripts differ between members")
			}
		}
		env.Check("C10/sub-context transcript differs from parent", !bytes.Equal(t0, tr0), "sub-context transcript equals the parent's")
		check("sub-quorum of size "+fmt.Sprint(len(sub)), sub, subCtx)
	}
	// dependence: the zero shares of a sub-quorum are derived from the parent session's secret
	// pairwise seeds — under another session (other seeds) the same party's share for the same
	// sub-quorum is another value (they are outputs of a PRG over different seeds: represented by
	// different symbols unless the seed material is identical)
	if len(subs) > 0 {
		sub := subs[0]
		other, err := makeContexts("c10-other-session/"+idsStr(quorum), quorum)
		if env.Check("C10/contexts-ok", err == nil, fmt.Sprint(err)) {
			again, err2 := makeContexts("c10/"+idsStr(quorum), quorum)
			if env.Check("C10/contexts-ok", err2 == nil, fmt.Sprint(err2)) {
				id := sub[0]
				sa, e1 := again[id].SubContext(idSet(sub...))
				sb, e2 := other[id].SubContext(idSet(sub...))
				if env.Check("C10/subcontext-ok", e1 == nil && e2 == nil, fmt.Sprint(e1, e2)) {
					za, e3 := przs.SampleZeroShare(sa, algebra.FiniteGroup[S](f))
					zb, e4 := przs.SampleZeroShare(sb, algebra.FiniteGroup[S](f))
					if env.Check("C10.a/zero-share-ok", e3 == nil && e4 == nil, fmt.Sprint(e3, e4)) {
						env.Witness("C10.a/a sub-quorum zero share depends on the session's seeds (differs under another session)", symalg.Not(env.EqF(za.Value(), zb.Value())))
					}
				}
			}
		}
	}
}

// C10Cases builds the case list.
func C10Cases(tier string, seed int64) []Case {
	var cases []Case
	maxN := 4
	if tier == "thorough" {
		maxN = 5
	}
	for _, pool := range idPools {
		for n := 2; n <= maxN; n++ {
			q := append([]sharing.ID(nil), pool[:n]...)
			cases = append(cases, both("C10/zero-shares/quorum="+idsStr(q), map[string]any{"quorum": q, "sub-quorums": "all of size ≥2"},
				func(e Env[*symalg.G, *symalg.F]) { c10ZeroShares(e, q) }, nil))
		}
	}
	return cases
}

var _ = k256.NewCurve
