package e2

import (
	"fmt"

	"github.com/bronlabs/bron-crypto/pkg/base/curves"
	"github.com/bronlabs/bron-crypto/pkg/signatures/bls"

	"verif/engine/symalg"
)

// BLS signatures over the pairing model of symalg (pairing.go): G1, G2 and GT in discrete-log
// representation, e([a]g1,[b]g2) = gT^(ab); hash-to-curve outputs have unknown symbolic discrete
// logs. Secret keys, forged components and offsets are symbolic; the real Signer / Verifier /
// aggregation code runs natively.

type dlogger interface{ Dlog() *symalg.F }

func eqPt[P dlogger](env *SymEnv, a, b P) symalg.Pred { return env.EqF(a.Dlog(), b.Dlog()) }

func c15BLS[PK interface {
	curves.PairingFriendlyPoint[PK, sF, SG, sF, *symalg.T, sF]
	dlogger
}, SG interface {
	curves.PairingFriendlyPoint[SG, sF, PK, sF, *symalg.T, sF]
	dlogger
}](env *SymEnv, scheme *bls.Scheme[PK, sF, SG, sF, *symalg.T, sF], n int) {
	f := env.Field()
	alg := scheme.RogueKeyPreventionAlgorithm()
	pfx := fmt.Sprintf("C15.bls[%v,alg=%d]", scheme.Variant(), alg)
	kg, sg := scheme.KeySubGroup(), scheme.SignatureSubGroup()
	delta := env.Scalar("delta")
	env.Assume(symalg.Not(env.EqF(delta, f.Zero())))

	type party struct {
		skv sF
		sk  *bls.PrivateKey[PK, sF, SG, sF, *symalg.T, sF]
		pk  *bls.PublicKey[PK, sF, SG, sF, *symalg.T, sF]
		sig *bls.Signature[SG, sF, PK, sF, *symalg.T, sF]
		msg []byte
	}
	ps := make([]*party, n)
	for i := range ps {
		skv := env.Scalar(fmt.Sprintf("sk%d", i))
		env.Assume(symalg.Not(env.EqF(skv, f.Zero())))
		sk, err := bls.NewPrivateKey[PK, sF, SG, sF, *symalg.T, sF](kg, skv)
		if !env.Check(pfx+"/key-ok", err == nil, fmt.Sprint(err)) {
			return
		}
		ps[i] = &party{skv: skv, sk: sk, pk: sk.PublicKey(), msg: []byte(fmt.Sprintf("message-%d", i))}
		env.Valid(pfx+"/pk = [sk]g", eqPt(env, ps[i].pk.Value(), kg.Generator().ScalarOp(skv)))
		signer, err := scheme.Signer(sk)
		if !env.Check(pfx+"/signer-ok", err == nil, fmt.Sprint(err)) {
			return
		}
		ps[i].sig, err = signer.Sign(ps[i].msg)
		if !env.Check(pfx+"/sign-ok", err == nil, fmt.Sprint(err)) {
			return
		}
	}
	newVerifier := func(opts ...bls.VerifierOption[PK, sF, SG, sF, *symalg.T, sF]) *bls.Verifier[PK, sF, SG, sF, *symalg.T, sF] {
		v, err := scheme.Verifier(opts...)
		if err != nil {
			env.Check(pfx+"/verifier-ok", false, err.Error())
			return nil
		}
		return v
	}
	p0 := ps[0]
	if v := newVerifier(); v != nil {
		env.Check(pfx+"/sign then verify accepts", v.Verify(p0.sig, p0.pk, p0.msg) == nil, "honest signature rejected")
	}
	// signature shifted by δ·g: rejected for every δ ≠ 0
	shifted, err := bls.NewSignature(p0.sig.Value().Op(sg.Generator().ScalarOp(delta)), p0.sig.Pop())
	if err == nil {
		if v := newVerifier(); v != nil {
			env.Check(pfx+"/signature shifted by δ≠0 is rejected", v.Verify(shifted, p0.pk, p0.msg) != nil, "altered signature accepted")
		}
	}
	// another key: accepted only if the keys coincide
	if n >= 2 {
		if v := newVerifier(); v != nil {
			if v.Verify(p0.sig, ps[1].pk, p0.msg) == nil {
				if alg == bls.MessageAugmentation {
					// the message is prefixed with the verifying key: acceptance is a relation between two
					// independent hash-to-curve outputs (probability 1/q), not between the keys alone
					env.Reach(pfx + "/accepted under another key (only on a relation between two hash-to-curve outputs)")
				} else {
					env.Valid(pfx+"/accepted under another key ⇒ same key", env.EqF(p0.skv, ps[1].skv))
				}
			} else {
				env.Reach(pfx + "/rejected under another key")
			}
		}
	}
	// another message: rejected (the two hash-to-curve outputs are different handles)
	if v := newVerifier(); v != nil {
		if v.Verify(p0.sig, p0.pk, []byte("another message")) == nil {
			env.Reach(pfx + "/accepted for another message (only if the hash-to-curve outputs coincide)")
		} else {
			env.Reach(pfx + "/rejected for another message")
		}
	}

	// aggregation over distinct messages
	sigs := make([]*bls.Signature[SG, sF, PK, sF, *symalg.T, sF], n)
	pks := make([]*bls.PublicKey[PK, sF, SG, sF, *symalg.T, sF], n)
	msgs := make([][]byte, n)
	var pops []*bls.ProofOfPossession[SG, sF, PK, sF, *symalg.T, sF]
	for i, p := range ps {
		sigs[i], pks[i], msgs[i] = p.sig, p.pk, p.msg
		if alg == bls.POP {
			pops = append(pops, p.sig.Pop())
		}
	}
	withPops := func(pp []*bls.ProofOfPossession[SG, sF, PK, sF, *symalg.T, sF]) []bls.VerifierOption[PK, sF, SG, sF, *symalg.T, sF] {
		if alg != bls.POP {
			return nil
		}
		return []bls.VerifierOption[PK, sF, SG, sF, *symalg.T, sF]{bls.VerifyWithProofsOfPossession[PK, sF, SG, sF, *symalg.T, sF](pp...)}
	}
	if n >= 2 {
		agg, err := scheme.AggregateSignatures(sigs...)
		if env.Check(pfx+"/aggregate-ok", err == nil, fmt.Sprint(err)) {
			// Σ sk_i·H(m_i) is the identity with probability 1/q over the hash outputs; the verifier
			// refuses an identity signature (stated assumption)
			env.Assume(symalg.Not(eqPt(env, agg.Value(), sg.OpIdentity())))
			if v := newVerifier(withPops(pops)...); v != nil {
				err := v.AggregateVerify(agg, pks, msgs)
				env.Check(pfx+"/aggregate of honest signatures verifies", err == nil, fmt.Sprintf("honest aggregate rejected: %+v", err))
			}
			bad, err := bls.NewSignature(agg.Value().Op(sg.Generator().ScalarOp(delta)), nil)
			if err == nil {
				if v := newVerifier(withPops(pops)...); v != nil {
					env.Check(pfx+"/aggregate shifted by δ≠0 is rejected", v.AggregateVerify(bad, pks, msgs) != nil, "altered aggregate accepted")
				}
			}
			// one component signature replaced by a signature under a shifted key
			if v := newVerifier(withPops(pops)...); v != nil {
				env.Check(pfx+"/aggregate is rejected when a public key is missing", v.AggregateVerify(agg, pks[:n-1], msgs[:n-1]) != nil, "aggregate accepted for a subset of the keys")
			}
			if alg == bls.POP {
				if v := newVerifier(withPops(pops[:n-1])...); v != nil {
					env.Check(pfx+"/POP: fewer proofs of possession than keys is refused", v.AggregateVerify(agg, pks, msgs) != nil, "aggregate accepted although a key has no proof of possession")
				}
				if v := newVerifier(); v != nil {
					env.Check(pfx+"/POP: no proofs of possession at all is refused", v.AggregateVerify(agg, pks, msgs) != nil, "aggregate accepted without any proof of possession")
				}
			}
		}
	}

	// POP mode, same message, rogue key: pk_r = [x]g − pk_victim, claimed proof arbitrary
	if alg == bls.POP && n >= 2 {
		victim := ps[0]
		x := env.Scalar("rogue-x")
		env.Assume(symalg.Not(env.EqF(x, victim.skv)))
		rogueV := kg.Generator().ScalarOp(x).Op(victim.pk.Value().OpInv())
		roguePK, err := bls.NewPublicKey[PK, sF, SG, sF, *symalg.T, sF](rogueV)
		if err == nil {
			var arbitrary SG
			switch any(arbitrary).(type) {
			case *symalg.G:
				arbitrary = any(env.Point("claimed-pop")).(SG)
			case *symalg.G2:
				arbitrary = any(env.R.Point2("claimed-pop")).(SG)
			}
			claimed, e1 := bls.NewProofOfPossession[SG, sF, PK, sF, *symalg.T, sF](arbitrary)
			// the forged "aggregate": [x]H(m) — what the attacker can compute without the victim
			m := []byte("same message")
			attacker, e2 := bls.NewPrivateKey[PK, sF, SG, sF, *symalg.T, sF](kg, x)
			if e1 == nil && e2 == nil {
				as, err := scheme.Signer(attacker)
				if err == nil {
					forged, err := as.Sign(m)
					if err == nil {
						forgedSig, _ := bls.NewSignature(forged.Value(), nil)
						if v := newVerifier(withPops([]*bls.ProofOfPossession[SG, sF, PK, sF, *symalg.T, sF]{victim.sig.Pop(), claimed})...); v != nil {
							if v.AggregateVerify(forgedSig, []*bls.PublicKey[PK, sF, SG, sF, *symalg.T, sF]{victim.pk, roguePK}, [][]byte{m, m}) == nil {
								// accepted: then the claimed proof must be a genuine POP for the rogue key,
								// i.e. its discrete log is (x − sk_victim)·dlog(H_pop(pk_r)) — recompute H_pop
								popDst := scheme.CipherSuite().GetPopDst(scheme.Variant())
								hp, herr := sg.HashWithDst(popDst, roguePK.Value().ToCompressed())
								if herr == nil {
									env.Valid(pfx+"/rogue key: accepted ⇒ the claimed proof is a genuine proof of possession of the rogue key", eqPt(env, arbitrary, hp.ScalarOp(x.Sub(victim.skv))))
								}
								env.Reach(pfx + "/rogue key accepted path (claimed proof happens to be genuine)")
							} else {
								env.Reach(pfx + "/rogue key rejected")
							}
						}
					}
				}
			}
		}
	}
	env.Reach("bls-done")
}

// C15BLSCases: both variants × three rogue-key modes.
func C15BLSCases(tier string) []Case {
	var cases []Case
	ns := []int{2}
	if tier == "thorough" {
		ns = []int{2, 3}
	}
	for _, alg := range []bls.RogueKeyPreventionAlgorithm{bls.Basic, bls.MessageAugmentation, bls.POP} {
		for _, n := range ns {
			a, nn := alg, n
			cases = append(cases, Case{ID: fmt.Sprintf("C15/bls/short-key/alg=%d/n=%d", alg, n), Desc: map[string]any{"scheme": "BLS, keys in G1, signatures in G2", "rogue key prevention": alg, "signers": n},
				Sym: func(e *SymEnv) {
					s, err := bls.NewShortKeyScheme(e.R.PairingFamily(), a)
					if !e.Check("C15.bls/scheme-ok", err == nil, fmt.Sprint(err)) {
						return
					}
					c15BLS(e, s, nn)
				}})
			cases = append(cases, Case{ID: fmt.Sprintf("C15/bls/long-key/alg=%d/n=%d", alg, n), Desc: map[string]any{"scheme": "BLS, keys in G2, signatures in G1", "rogue key prevention": alg, "signers": n},
				Sym: func(e *SymEnv) {
					s, err := bls.NewLongKeyScheme(e.R.PairingFamily(), a)
					if !e.Check("C15.bls/scheme-ok", err == nil, fmt.Sprint(err)) {
						return
					}
					c15BLS(e, s, nn)
				}})
		}
	}
	return cases
}
