package e2

import (
	"fmt"
	"sort"
	"strings"

	"github.com/bronlabs/bron-crypto/pkg/base/algebra"
	"github.com/bronlabs/bron-crypto/pkg/base/curves/k256"
	"github.com/bronlabs/bron-crypto/pkg/base/mat"
	pedcom "github.com/bronlabs/bron-crypto/pkg/commitments/pedersencom"
	"github.com/bronlabs/bron-crypto/pkg/mpc/sharing"
	"github.com/bronlabs/bron-crypto/pkg/mpc/sharing/scheme/kw"
	"github.com/bronlabs/bron-crypto/pkg/mpc/sharing/scheme/kw/msp"
	"github.com/bronlabs/bron-crypto/pkg/mpc/sharing/vss/feldman"
	"github.com/bronlabs/bron-crypto/pkg/mpc/sharing/vss/pedersen"

	"verif/engine/symalg"
)

// holderRows returns the sorted MSP row indices of a holder.
func holderRows[S algebra.PrimeFieldElement[S]](m *msp.MSP[S], id sharing.ID) []int {
	rs, ok := m.HoldersToRows().Get(id)
	if !ok {
		return nil
	}
	rows := rs.List()
	sort.Ints(rows)
	return rows
}

// columnOfPoints builds a module-valued column vector from group elements.
func columnOfPoints[E algebra.PrimeGroupElement[E, S], S algebra.PrimeFieldElement[S]](group algebra.PrimeGroup[E, S], pts []E) (*mat.ModuleValuedMatrix[E, S], error) {
	mod, err := mat.NewModuleValuedMatrixModule[E, S](uint(len(pts)), 1, group)
	if err != nil {
		return nil, err
	}
	return mod.NewRowMajor(pts...)
}

// expectedLifted computes Σ_j M[row][j]·V_j independently of mat.LeftAction.
func expectedLifted[E algebra.PrimeGroupElement[E, S], S algebra.PrimeFieldElement[S]](group algebra.PrimeGroup[E, S], m *msp.MSP[S], row int, V []E) E {
	acc := group.OpIdentity()
	for j := range V {
		mij, _ := m.Matrix().Get(row, j)
		acc = acc.Op(V[j].ScalarOp(mij))
	}
	return acc
}

// c05FeldmanIff: an ARBITRARY share vector and an ARBITRARY verification vector: Verify accepts
// iff share·G = M_i·V (every path), for one policy and every holder.
func c05FeldmanIff[E algebra.PrimeGroupElement[E, S], S algebra.PrimeFieldElement[S]](env Env[E, S], pol Policy, holder sharing.ID) {
	as, err := pol.Build()
	if err != nil {
		env.Reach("refused")
		return
	}
	group := env.Group()
	scheme, err := guarded(func() (*feldman.Scheme[E, S], error) { return feldman.NewScheme(group, as) })
	if err != nil {
		env.Reach("refused")
		return
	}
	m := scheme.MSP()
	rows := holderRows(m, holder)
	if len(rows) == 0 {
		env.Reach("holder-without-rows")
		return
	}
	D := int(m.D())
	V := make([]E, D)
	for j := range V {
		V[j] = env.Point(fmt.Sprintf("V%d", j))
	}
	sv := make([]S, len(rows))
	for k := range sv {
		sv[k] = env.Scalar(fmt.Sprintf("s%d", k))
	}
	col, err := columnOfPoints(group, V)
	if !env.Check("C05.a/setup", err == nil, fmt.Sprint(err)) {
		return
	}
	vv, err := feldman.NewVerificationVector(col, m)
	if !env.Check("C05.a/setup", err == nil, fmt.Sprint(err)) {
		return
	}
	share, err := kw.NewShare(holder, sv...)
	if !env.Check("C05.a/setup", err == nil, fmt.Sprint(err)) {
		return
	}
	verr := scheme.Verify(share, vv)
	var match []symalg.Pred
	g := group.Generator()
	for k, r := range rows {
		match = append(match, env.EqG(g.ScalarOp(sv[k]), expectedLifted(group, m, r, V)))
	}
	if verr == nil {
		env.Reach("accept-path")
		env.Valid("C05.a/accept⇒share=M_i·V", symalg.And(match...))
	} else {
		env.Reach("reject-path")
		env.Valid("C05.a/reject⇒share≠M_i·V", symalg.Not(symalg.And(match...)))
	}
}

// c05FeldmanDealing: honest dealings verify; δ-tampered components, wrong holder, wrong lengths
// are rejected; combinations verify the sum; exponent reconstruction gives V[0].
func c05FeldmanDealing[E algebra.PrimeGroupElement[E, S], S algebra.PrimeFieldElement[S]](env Env[E, S], pol Policy) {
	as, err := pol.Build()
	if err != nil {
		env.Reach("refused")
		return
	}
	group := env.Group()
	f := env.Field()
	scheme, err := guarded(func() (*feldman.Scheme[E, S], error) { return feldman.NewScheme(group, as) })
	if err != nil {
		env.Reach("refused")
		return
	}
	m := scheme.MSP()
	s1 := env.Scalar("secret1")
	s2 := env.Scalar("secret2")
	o1, err := scheme.Deal(kw.NewSecret(s1), env.Reader("dealer1"))
	if !env.Check("C05/deal-ok", err == nil, fmt.Sprint(err)) {
		return
	}
	o2, err := scheme.Deal(kw.NewSecret(s2), env.Reader("dealer2"))
	if !env.Check("C05/deal-ok", err == nil, fmt.Sprint(err)) {
		return
	}
	env.Reach("dealt")
	V1, V2 := o1.VerificationMaterial(), o2.VerificationMaterial()
	V12, err := V1.Op(V2)
	if !env.Check("C05.c/op-ok", err == nil, fmt.Sprint(err)) {
		return
	}
	g := group.Generator()
	v0, _ := V1.Value().Get(0, 0)
	env.Valid("C05.d/V[0]=[secret]G", env.EqG(v0, g.ScalarOp(s1)))
	delta := env.Scalar("delta")
	env.Assume(symalg.Not(env.EqF(delta, f.Zero())))

	ids := sortedIDs(m.Shareholders().List())
	for _, id := range ids {
		sh1, _ := o1.Shares().Get(id)
		sh2, _ := o2.Shares().Get(id)
		env.Check("C05/honest-share-verifies", scheme.Verify(sh1, V1) == nil, fmt.Sprintf("honest share of %d rejected", id))
		// combination
		env.Check("C05.c/sum-verifies-under-combined-vector", scheme.Verify(sh1.Add(sh2), V12) == nil, fmt.Sprintf("sum share of %d rejected by V1·V2", id))
		// every single-coordinate change by δ ≠ 0 is rejected
		for k := range sh1.Value() {
			vals := append([]S(nil), sh1.Value()...)
			vals[k] = vals[k].Add(delta)
			bad, _ := kw.NewShare(id, vals...)
			env.Check("C05.a/tampered-component-rejected", scheme.Verify(bad, V1) != nil, fmt.Sprintf("share of %d with component %d shifted by δ≠0 accepted", id, k))
		}
		// length changes
		if vals := sh1.Value(); len(vals) > 0 {
			longer, _ := kw.NewShare(id, append(append([]S(nil), vals...), f.Zero())...)
			env.Check("C05.b/longer-share-rejected", noPanicErr(func() error { return scheme.Verify(longer, V1) }) != nil, "share extended by one component accepted")
			if len(vals) > 1 {
				shorter, _ := kw.NewShare(id, vals[:len(vals)-1]...)
				env.Check("C05.b/shorter-share-rejected", noPanicErr(func() error { return scheme.Verify(shorter, V1) }) != nil, "share truncated by one component accepted")
			}
		}
	}
	// every entry of the verification vector changed by δ·G: every holder whose rows have a non-zero
	// entry in that column rejects; holders that do not depend on it still accept
	D := int(m.D())
	for j := 0; j < D; j++ {
		pts := make([]E, D)
		for i := range pts {
			pts[i], _ = V1.Value().Get(i, 0)
		}
		pts[j] = pts[j].Op(g.ScalarOp(delta))
		col, _ := columnOfPoints(group, pts)
		badV, err := feldman.NewVerificationVector(col, m)
		if !env.Check("C05.a/setup", err == nil, fmt.Sprint(err)) {
			continue
		}
		for _, id := range ids {
			depends := false
			for _, r := range holderRows(m, id) {
				mij, _ := m.Matrix().Get(r, j)
				if !mij.IsZero() {
					depends = true
				}
			}
			sh1, _ := o1.Shares().Get(id)
			rej := scheme.Verify(sh1, badV) != nil
			if depends {
				env.Check("C05.a/tampered-vector-entry-rejected-by-dependent-holder", rej, fmt.Sprintf("V[%d] shifted by δG accepted by holder %d who depends on it", j, id))
			} else {
				env.Check("C05.a/independent-holder-unaffected", !rej, fmt.Sprintf("V[%d] shifted rejected by holder %d who does not depend on it", j, id))
			}
		}
	}
	// verification vector of wrong length (D±1, including extension by the identity)
	{
		pts := make([]E, D+1)
		for i := 0; i < D; i++ {
			pts[i], _ = V1.Value().Get(i, 0)
		}
		pts[D] = group.OpIdentity()
		col, _ := columnOfPoints(group, pts)
		_, err := feldman.NewVerificationVector(col, m)
		env.Check("C05.b/extended-vector-refused-by-constructor", err != nil, "verification vector of length D+1 accepted by NewVerificationVector")
		// ReconstructAndVerify must not hand out a secret when the shares cannot be verified: with a
		// vector of the wrong length, and with a δ-shifted share under the right vector
		quorumShares := func() (out []*kw.Share[S]) {
			for _, A := range minimalQualified(as, pol.IDs) {
				for _, id := range A {
					if sh, ok := o1.Shares().Get(id); ok {
						out = append(out, sh)
					}
				}
				return out
			}
			return nil
		}()
		recRefused := func(id string, V *feldman.VerificationVector[E, S], shs []*kw.Share[S]) {
			if len(shs) == 0 {
				return
			}
			err := noPanicErr(func() error { _, err := scheme.ReconstructAndVerify(V, shs...); return err })
			env.Check(id, err != nil, "ReconstructAndVerify returned a secret")
		}
		if ext, err := feldman.NewVerificationVector(col, nil); err == nil {
			for _, id := range ids {
				sh1, _ := o1.Shares().Get(id)
				env.Check("C05.b/extended-vector-rejected-by-verify", noPanicErr(func() error { return scheme.Verify(sh1, ext) }) != nil, "verification vector extended by the identity accepted by Verify")
			}
			recRefused("C05.b/extended-vector-rejected-by-reconstruct-and-verify", ext, quorumShares)
		}
		if D > 1 {
			colS, _ := columnOfPoints(group, pts[:D-1])
			if short, err := feldman.NewVerificationVector(colS, nil); err == nil {
				for _, id := range ids {
					sh1, _ := o1.Shares().Get(id)
					env.Check("C05.b/truncated-vector-rejected-by-verify", noPanicErr(func() error { return scheme.Verify(sh1, short) }) != nil, "truncated verification vector accepted by Verify")
				}
				recRefused("C05.b/truncated-vector-rejected-by-reconstruct-and-verify", short, quorumShares)
			}
		}
		if len(quorumShares) > 0 {
			rec, err := scheme.ReconstructAndVerify(V1, quorumShares...)
			if env.Check("C05.d/reconstruct-and-verify accepts the dealer's shares", err == nil, fmt.Sprint(err)) {
				env.Valid("C05.d/reconstruct-and-verify returns the dealt secret", env.EqF(rec.Value(), s1))
			}
			vals := append([]S(nil), quorumShares[0].Value()...)
			vals[0] = vals[0].Add(delta)
			if badSh, err := kw.NewShare(quorumShares[0].ID(), vals...); err == nil {
				recRefused("C05.d/reconstruct-and-verify refuses a share shifted by δ≠0", V1, append([]*kw.Share[S]{badSh}, quorumShares[1:]...))
			}
		}
	}
	// wrong-holder presentation: holder i's values under holder j's identity are accepted only if
	// they coincide with j's
	for _, i := range ids {
		for _, j := range ids {
			if i == j {
				continue
			}
			shi, _ := o1.Shares().Get(i)
			shj, _ := o1.Shares().Get(j)
			if len(shi.Value()) != len(shj.Value()) {
				continue
			}
			moved, _ := kw.NewShare(j, shi.Value()...)
			acc := scheme.Verify(moved, V1) == nil
			var same []symalg.Pred
			for k := range shi.Value() {
				same = append(same, env.EqF(shi.Value()[k], shj.Value()[k]))
			}
			if acc {
				env.Valid("C05.a/share-under-other-identity-accepted⇒equal-values", symalg.And(same...))
			} else {
				env.Valid("C05.a/share-under-other-identity-rejected⇒different-values", symalg.Not(symalg.And(same...)))
			}
		}
	}
	// reconstruction in the exponent over every minimal qualified set
	ldf, err := feldman.NewLiftedDealerFunc(V1, m)
	if env.Check("C05.d/lifted-dealer-func", err == nil, fmt.Sprint(err)) {
		for _, A := range minimalQualified(as, pol.IDs) {
			var ls []*feldman.LiftedShare[E, S]
			okAll := true
			for _, id := range A {
				l, err := ldf.ShareOf(id)
				if err != nil {
					okAll = false
					break
				}
				ls = append(ls, l)
			}
			if !okAll {
				continue
			}
			sec, err := scheme.ReconstructInTheExponent(ls...)
			if env.Check("C05.d/exponent-reconstruct-ok", err == nil, fmt.Sprintf("%s: %v", setName(A), err)) {
				env.Valid("C05.d/exponent-reconstruct=[secret]G", env.EqG(sec.Value(), g.ScalarOp(s1)))
			}
		}
	}
}

func noPanicErr(f func() error) (err error) {
	defer func() {
		if x := recover(); x != nil {
			if symalg.IsEnginePanic(x) {
				panic(x)
			}
			panic(fmt.Sprintf("library panicked instead of returning an error: %v", x))
		}
	}()
	return f()
}

func sortedIDs(ids []sharing.ID) []sharing.ID {
	c := append([]sharing.ID(nil), ids...)
	sort.Slice(c, func(i, j int) bool { return c[i] < c[j] })
	return c
}

// pedersenKey builds a Pedersen key with an arbitrary second generator h (symbolic discrete log),
// under the precondition the library itself enforces: h ∉ {identity, g}.
func pedersenKey[E algebra.PrimeGroupElement[E, S], S algebra.PrimeFieldElement[S]](env Env[E, S]) (*pedcom.CommitmentKey[E, S], E, bool) {
	group := env.Group()
	g := group.Generator()
	h := env.Point("h")
	env.Assume(symalg.Not(env.EqG(h, group.OpIdentity())))
	env.Assume(symalg.Not(env.EqG(h, g)))
	key, err := pedcom.NewCommitmentKeyUnchecked(g, h)
	if !env.Check("pedersen-key", err == nil, fmt.Sprint(err)) {
		return nil, h, false
	}
	return key, h, true
}

// c05PedersenIff: arbitrary (secret, blinding) share components and arbitrary verification vector.
func c05PedersenIff[E algebra.PrimeGroupElement[E, S], S algebra.PrimeFieldElement[S]](env Env[E, S], pol Policy, holder sharing.ID) {
	as, err := pol.Build()
	if err != nil {
		env.Reach("refused")
		return
	}
	group := env.Group()
	key, h, ok := pedersenKey(env)
	if !ok {
		return
	}
	scheme, err := guarded(func() (*pedersen.Scheme[E, S], error) { return pedersen.NewScheme(key, as) })
	if err != nil {
		env.Reach("refused")
		return
	}
	kws, err := kw.NewScheme(env.Field(), as)
	if err != nil {
		env.Reach("refused")
		return
	}
	m := kws.MSP()
	rows := holderRows(m, holder)
	if len(rows) == 0 {
		env.Reach("holder-without-rows")
		return
	}
	D := int(m.D())
	V := make([]E, D)
	for j := range V {
		V[j] = env.Point(fmt.Sprintf("V%d", j))
	}
	sv := make([]S, len(rows))
	bv := make([]S, len(rows))
	for k := range sv {
		sv[k] = env.Scalar(fmt.Sprintf("s%d", k))
		bv[k] = env.Scalar(fmt.Sprintf("b%d", k))
	}
	col, err := columnOfPoints(group, V)
	if !env.Check("C05.e/setup", err == nil, fmt.Sprint(err)) {
		return
	}
	vv, err := feldman.NewVerificationVector(col, m)
	if !env.Check("C05.e/setup", err == nil, fmt.Sprint(err)) {
		return
	}
	ss, err1 := kw.NewShare(holder, sv...)
	bs, err2 := kw.NewShare(holder, bv...)
	if !env.Check("C05.e/setup", err1 == nil && err2 == nil, fmt.Sprint(err1, err2)) {
		return
	}
	share, err := pedersen.NewShare(holder, ss, bs)
	if !env.Check("C05.e/setup", err == nil, fmt.Sprint(err)) {
		return
	}
	verr := scheme.Verify(share, vv)
	var match []symalg.Pred
	g := group.Generator()
	for k, r := range rows {
		match = append(match, env.EqG(g.ScalarOp(sv[k]).Op(h.ScalarOp(bv[k])), expectedLifted(group, m, r, V)))
	}
	if verr == nil {
		env.Reach("accept-path")
		env.Valid("C05.e/accept⇒commitment=M_i·V", symalg.And(match...))
	} else {
		env.Reach("reject-path")
		env.Valid("C05.e/reject⇒commitment≠M_i·V", symalg.Not(symalg.And(match...)))
	}
}

// c05PedersenDealing: honest dealings verify and reconstruct; δ-tampering of the secret or the
// blinding component is rejected; sums verify under combined vectors.
func c05PedersenDealing[E algebra.PrimeGroupElement[E, S], S algebra.PrimeFieldElement[S]](env Env[E, S], pol Policy) {
	as, err := pol.Build()
	if err != nil {
		env.Reach("refused")
		return
	}
	f := env.Field()
	key, _, ok := pedersenKey(env)
	if !ok {
		return
	}
	scheme, err := guarded(func() (*pedersen.Scheme[E, S], error) { return pedersen.NewScheme(key, as) })
	if err != nil {
		env.Reach("refused")
		return
	}
	s1 := env.Scalar("secret1")
	s2 := env.Scalar("secret2")
	o1, err := scheme.Deal(kw.NewSecret(s1), env.Reader("dealer1"))
	if !env.Check("C05.e/deal-ok", err == nil, fmt.Sprint(err)) {
		return
	}
	o2, err := scheme.Deal(kw.NewSecret(s2), env.Reader("dealer2"))
	if !env.Check("C05.e/deal-ok", err == nil, fmt.Sprint(err)) {
		return
	}
	env.Reach("dealt")
	V1, V2 := o1.VerificationMaterial(), o2.VerificationMaterial()
	V12, err := V1.Op(V2)
	if !env.Check("C05.e/op-ok", err == nil, fmt.Sprint(err)) {
		return
	}
	delta := env.Scalar("delta")
	env.Assume(symalg.Not(env.EqF(delta, f.Zero())))
	ids := sortedIDs(scheme.Shareholders().List())
	for _, id := range ids {
		sh1, ok1 := o1.Shares().Get(id)
		sh2, ok2 := o2.Shares().Get(id)
		if !ok1 || !ok2 {
			continue
		}
		env.Check("C05.e/honest-share-verifies", scheme.Verify(sh1, V1) == nil, fmt.Sprintf("honest Pedersen share of %d rejected", id))
		env.Check("C05.e/sum-verifies-under-combined-vector", scheme.Verify(sh1.Add(sh2), V12) == nil, fmt.Sprintf("sum share of %d rejected", id))
		secs := sh1.Secret()
		blds := sh1.Blinding()
		for k := range secs {
			// shift secret component k
			sv := make([]S, len(secs))
			bv := make([]S, len(secs))
			for i := range secs {
				sv[i] = secs[i].Value()
				bv[i] = blds[i].Value()
			}
			sv2 := append([]S(nil), sv...)
			sv2[k] = sv2[k].Add(delta)
			a, _ := kw.NewShare(id, sv2...)
			b, _ := kw.NewShare(id, bv...)
			bad, err := pedersen.NewShare(id, a, b)
			if err == nil {
				env.Check("C05.e/tampered-secret-component-rejected", scheme.Verify(bad, V1) != nil, fmt.Sprintf("holder %d secret component %d shifted by δ accepted", id, k))
			}
			bv2 := append([]S(nil), bv...)
			bv2[k] = bv2[k].Add(delta)
			a2, _ := kw.NewShare(id, sv...)
			b2, _ := kw.NewShare(id, bv2...)
			bad2, err := pedersen.NewShare(id, a2, b2)
			if err == nil {
				env.Check("C05.e/tampered-blinding-component-rejected", scheme.Verify(bad2, V1) != nil, fmt.Sprintf("holder %d blinding component %d shifted by δ accepted", id, k))
			}
		}
	}
	for _, A := range minimalQualified(as, pol.IDs) {
		var sh []*pedersen.Share[S]
		for _, id := range A {
			if s, ok := o1.Shares().Get(id); ok {
				sh = append(sh, s)
			}
		}
		if len(sh) != len(A) {
			continue
		}
		rec, err := scheme.ReconstructAndVerify(V1, sh...)
		if env.Check("C05.e/reconstruct-and-verify-ok", err == nil, fmt.Sprintf("%s: %v", setName(A), err)) {
			env.Valid("C05.e/reconstruct=secret", env.EqF(rec.Value(), s1))
		}
	}
}

// smallPolicies returns a sub-corpus suitable for per-holder harnesses.
func smallPolicies(tier string, seed int64, perFamily int) []Policy {
	all := PolicyCorpus(tier, seed)
	count := map[string]int{}
	var out []Policy
	for _, p := range all {
		// thorough: five times as many policies per family (the whole corpus — 4816 C05 cases — ran
		// clean once but needs more than an hour; see DESIGN §12.6)
		lim := perFamily
		if tier == "thorough" {
			lim = 5 * perFamily
		}
		if count[p.Family] >= lim {
			continue
		}
		count[p.Family]++
		out = append(out, p)
	}
	return out
}

// C05Cases builds the case list.
func C05Cases(tier string, seed int64) []Case {
	var cases []Case
	per := 6
	for _, pol := range smallPolicies(tier, seed, per) {
		p := pol
		// Reduced bound of the thorough tier, stated: threshold ≥ 3 over the sparse / 64-bit identifier
		// pools and threshold 4 make the δ-tampering clauses branch on inconsistent systems of three or
		// more linear congruences in two unknowns, on which z3 and cvc5 answer `unknown` for validity
		// queries (the run ended with 81 inconclusive obligations after 34 minutes); branch pruning has
		// an exact linear-algebra fallback, validity verdicts deliberately do not.
		if strings.HasPrefix(p.Name, "threshold(3,{7,2,77,5})") || strings.HasPrefix(p.Name, "threshold(3,{4294967297") || strings.HasPrefix(p.Name, "threshold(4,") {
			continue
		}
		cases = append(cases, both("C05/feldman/dealing/"+p.Name, map[string]any{"vss": "feldman", "policy": p.Name},
			func(e Env[*symalg.G, *symalg.F]) { c05FeldmanDealing(e, p) },
			func(e Env[*k256.Point, *k256.Scalar]) { c05FeldmanDealing(e, p) }))
		cases = append(cases, both("C05/pedersen/dealing/"+p.Name, map[string]any{"vss": "pedersen", "policy": p.Name},
			func(e Env[*symalg.G, *symalg.F]) { c05PedersenDealing(e, p) },
			func(e Env[*k256.Point, *k256.Scalar]) { c05PedersenDealing(e, p) }))
		for _, id := range p.IDs {
			h := id
			cases = append(cases, both(fmt.Sprintf("C05/feldman/iff/%s/holder=%d", p.Name, h), map[string]any{"vss": "feldman", "policy": p.Name, "holder": h, "share": "arbitrary", "verification_vector": "arbitrary"},
				func(e Env[*symalg.G, *symalg.F]) { c05FeldmanIff(e, p, h) },
				func(e Env[*k256.Point, *k256.Scalar]) { c05FeldmanIff(e, p, h) }))
			cases = append(cases, both(fmt.Sprintf("C05/pedersen/iff/%s/holder=%d", p.Name, h), map[string]any{"vss": "pedersen", "policy": p.Name, "holder": h},
				func(e Env[*symalg.G, *symalg.F]) { c05PedersenIff(e, p, h) },
				func(e Env[*k256.Point, *k256.Scalar]) { c05PedersenIff(e, p, h) }))
		}
	}
	return cases
}
