// Package e2 holds the harnesses of engine E2 (symbolic instantiation of the library's generic
// type parameters) and the runner that explores them, replays counterexamples and writes evidence.
package e2

import (
	"io"
	"math/big"

	"github.com/bronlabs/bron-crypto/pkg/base/algebra"

	"verif/engine/symalg"
)

// Env is what a harness sees: the algebra it is instantiated with, its symbolic inputs and the
// obligation sink. Harness bodies are generic over (E, S) so that the very same code runs
//   - symbolically (E,S = *symalg.G,*symalg.F with SMT-term values),
//   - concretely in the model (same types, variables bound to a model: engine validation / replay),
//   - on the real curve (E,S = *k256.Point,*k256.Scalar: replay of a counterexample).
type Env[E algebra.PrimeGroupElement[E, S], S algebra.PrimeFieldElement[S]] interface {
	Field() algebra.PrimeField[S]
	Group() algebra.PrimeGroup[E, S]
	// Scalar / Point return the named arbitrary input.
	Scalar(name string) S
	Point(name string) E
	// Const returns a concrete field element.
	Const(v *big.Int) S
	// Drawn returns the field element that Field.Random yields (or yielded) when reading the named
	// stream at the given byte offset: the symbolic variable itself, or its model value.
	Drawn(reader string, offset int) S
	// Reader returns the named arbitrary random stream.
	Reader(name string) io.Reader
	// Predicates over elements.
	EqF(a, b S) symalg.Pred
	EqG(a, b E) symalg.Pred
	// Assume states a precondition; Valid/Witness/Check/Reach are obligations (see symalg.Run).
	Assume(p symalg.Pred)
	Valid(id string, p symalg.Pred) bool
	Witness(id string, p symalg.Pred) bool
	Check(id string, cond bool, msg string) bool
	Reach(id string)
	// SetActor labels the party currently executing (reader-discipline monitor).
	SetActor(a string)
	// AssumeDrawsNonZero: freshly sampled random elements are assumed non-zero from now on
	// (genericity assumption used by protocol-level harnesses, see symalg.Run.AssumeDrawsNonZero).
	AssumeDrawsNonZero()
	// Symbolic reports whether values are symbolic (some harness clauses only make sense then).
	Symbolic() bool
}

// SymEnv is the model-algebra environment (symbolic or concrete-model mode).
type SymEnv struct{ R *symalg.Run }

var _ Env[*symalg.G, *symalg.F] = (*SymEnv)(nil)

func (e *SymEnv) Field() algebra.PrimeField[*symalg.F]            { return e.R.Field() }
func (e *SymEnv) Group() algebra.PrimeGroup[*symalg.G, *symalg.F] { return e.R.Group() }
func (e *SymEnv) Scalar(name string) *symalg.F                    { return e.R.Scalar(name) }
func (e *SymEnv) Point(name string) *symalg.G                     { return e.R.Point(name) }
func (e *SymEnv) Const(v *big.Int) *symalg.F                      { return e.R.ConstF(v) }
func (e *SymEnv) Drawn(reader string, off int) *symalg.F          { return e.R.Drawn(reader, off) }
func (e *SymEnv) Reader(name string) io.Reader                    { return e.R.Reader(name) }
func (e *SymEnv) EqF(a, b *symalg.F) symalg.Pred                  { return symalg.EqFKeep(a, b) }
func (e *SymEnv) EqG(a, b *symalg.G) symalg.Pred                  { return symalg.EqGKeep(a, b) }
func (e *SymEnv) Assume(p symalg.Pred)                            { e.R.Assume(p) }
func (e *SymEnv) Valid(id string, p symalg.Pred) bool             { return e.R.Valid(id, p) }
func (e *SymEnv) Witness(id string, p symalg.Pred) bool           { ok, _ := e.R.Witness(id, p); return ok }
func (e *SymEnv) Check(id string, c bool, msg string) bool        { return e.R.Check(id, c, msg) }
func (e *SymEnv) Reach(id string)                                 { e.R.Reach(id) }
func (e *SymEnv) SetActor(a string)                               { e.R.SetActor(a) }
func (e *SymEnv) AssumeDrawsNonZero()                             { e.R.AssumeDrawsNonZero() }
func (e *SymEnv) Symbolic() bool                                  { return !e.R.IsConcrete() }
