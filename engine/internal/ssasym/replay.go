package ssasym

import (
	"bytes"
	"encoding/json"
	"fmt"
	"os"
	"os/exec"
	"path/filepath"
	"regexp"
	"strings"
	"time"
)

// NativeRun is the native twin's report of one run.
type NativeRun struct {
	Harness   string       `json:"harness"`
	Events    []TraceEvent `json:"events"`
	End       string       `json:"end"`
	Panic     string       `json:"panic,omitempty"`
	Exhausted bool         `json:"exhausted,omitempty"`
	Desync    string       `json:"desync,omitempty"`
}

// Replayer builds the natively compiled harness once and runs recorded assignments through it.
type Replayer struct {
	L       *Loaded
	Dir     string // artefact directory
	Binary  string
	Overlay string
	BuildS  float64
	GoWork  string // alternate workspace file (hash instrumentation of x/crypto), "" if unused
	built   bool
}

func (r *Replayer) env() []string {
	e := goEnv()
	if r.GoWork != "" {
		e = append(e, "GOWORK="+r.GoWork)
	}
	return e
}

func NewReplayer(L *Loaded, dir string) (*Replayer, error) {
	if dir == "" {
		d, err := os.MkdirTemp("", "ssasym-replay")
		if err != nil {
			return nil, err
		}
		dir = d
	}
	dir, err := filepath.Abs(dir)
	if err != nil {
		return nil, err
	}
	if err := os.MkdirAll(dir, 0o755); err != nil {
		return nil, err
	}
	return &Replayer{L: L, Dir: dir}, nil
}

// prepare writes the generated sources and the overlay description.
func (r *Replayer) prepare() error {
	gen := filepath.Join(r.Dir, "gen_"+r.L.PkgName)
	if err := os.MkdirAll(gen, 0o755); err != nil {
		return err
	}
	replace := map[string]string{}
	haveNative := false
	for virt, real := range r.L.ReplayFiles {
		replace[virt] = real
		if filepath.Base(virt) == "zz_verif_intrinsics_native.go" {
			haveNative = true
		}
	}
	if !haveNative {
		p := filepath.Join(gen, "zz_verif_intrinsics_native.go")
		if err := os.WriteFile(p, []byte(strings.ReplaceAll(intrinsicsNative, "PKGNAME", r.L.PkgName)), 0o644); err != nil {
			return err
		}
		replace[filepath.Join(r.L.PkgDir, "zz_verif_intrinsics_native.go")] = p
	}
	var tab strings.Builder
	for _, f := range r.L.HarnessFns {
		fmt.Fprintf(&tab, "\t%q: %s,\n", f, f)
	}
	src := strings.ReplaceAll(replayTest, "PKGNAME", r.L.PkgName)
	src = strings.ReplaceAll(src, "HARNESSTABLE", tab.String())
	tp := filepath.Join(gen, "zz_verif_replay_test.go")
	if err := os.WriteFile(tp, []byte(src), 0o644); err != nil {
		return err
	}
	replace[filepath.Join(r.L.PkgDir, "zz_verif_replay_test.go")] = tp
	// the package's own tests are not needed for the replay: hide them (faster build, no
	// interference from TestMain or init functions of the test files)
	ents, err := os.ReadDir(r.L.PkgDir)
	if err != nil {
		return err
	}
	for _, e := range ents {
		if strings.HasSuffix(e.Name(), "_test.go") {
			replace[filepath.Join(r.L.PkgDir, e.Name())] = ""
		}
	}
	if r.L.usesHashLog() {
		if err := r.hashOverlay(replace, gen); err != nil {
			return err
		}
	}
	b, err := json.MarshalIndent(map[string]interface{}{"Replace": replace}, "", "  ")
	if err != nil {
		return err
	}
	r.Overlay = filepath.Join(r.Dir, "overlay_"+r.L.PkgName+".json")
	return os.WriteFile(r.Overlay, b, 0o644)
}

// Build compiles the test binary of the target package with the harness and native twin overlaid.
func (r *Replayer) Build() error {
	if r.built {
		return nil
	}
	if err := r.prepare(); err != nil {
		return err
	}
	t0 := time.Now()
	r.Binary = filepath.Join(r.Dir, r.L.PkgName+".replay.test")
	cmd := exec.Command(GoBinary, "test", "-c", "-tags", BuildTags, "-vet=off", "-overlay", r.Overlay, "-o", r.Binary, r.L.PkgPath)
	cmd.Dir = RepoDir
	cmd.Env = r.env()
	out, err := cmd.CombinedOutput()
	r.BuildS = time.Since(t0).Seconds()
	if err != nil {
		return fmt.Errorf("native build failed: %v\n%s", err, out)
	}
	r.built = true
	return nil
}

// GoTestCommand is the from-scratch command line equivalent to what Run does.
func (r *Replayer) GoTestCommand(assignFile string) string {
	work := ""
	if r.GoWork != "" {
		work = "GOWORK=" + r.GoWork + " "
	}
	return fmt.Sprintf("cd %s && "+work+"GOFLAGS= GOPROXY=off GOSUMDB=off GOTOOLCHAIN=local VERIF_REPLAY=%s %s test -tags %s -vet=off -count=1 -overlay %s -run '^TestVerifReplay$' %s",
		RepoDir, assignFile, GoBinary, BuildTags, r.Overlay, r.L.PkgPath)
}

// Run executes the assignments natively.
func (r *Replayer) Run(assignFile string) ([]NativeRun, string, error) {
	if err := r.Build(); err != nil {
		return nil, "", err
	}
	outFile := assignFile + ".out"
	os.Remove(outFile)
	cmd := exec.Command(r.Binary, "-test.run", "^TestVerifReplay$", "-test.count=1", "-test.timeout=300s")
	cmd.Dir = r.L.PkgDir
	cmd.Env = append(goEnv(), "VERIF_REPLAY="+assignFile, "VERIF_REPLAY_OUT="+outFile)
	var buf bytes.Buffer
	cmd.Stdout, cmd.Stderr = &buf, &buf
	runErr := cmd.Run() // a failing test is the expected outcome for a counterexample
	data, err := os.ReadFile(outFile)
	if err != nil {
		return nil, buf.String(), fmt.Errorf("native replay produced no report (%v): %s", runErr, buf.String())
	}
	var outs struct {
		Runs []NativeRun `json:"runs"`
	}
	if err := json.Unmarshal(data, &outs); err != nil {
		return nil, buf.String(), err
	}
	return outs.Runs, buf.String(), nil
}

var unsafeName = regexp.MustCompile(`[^A-Za-z0-9_.-]+`)

// WriteAssignments stores runs as a replay input file.
func (r *Replayer) WriteAssignments(name string, runs []*Assignment) (string, error) {
	p := filepath.Join(r.Dir, unsafeName.ReplaceAllString(name, "_")+".json")
	b, err := json.MarshalIndent(map[string]interface{}{"runs": runs}, "", " ")
	if err != nil {
		return "", err
	}
	return p, os.WriteFile(p, b, 0o644)
}

// Confirm replays one counterexample natively and says whether it reproduces.
func (r *Replayer) Confirm(o *Obligation) (bool, string, string) {
	name := o.Harness + "__" + o.ID
	path, err := r.WriteAssignments(name, []*Assignment{o.cand.assign})
	if err != nil {
		o.cand.infra = true
		return false, "", "cannot write assignment: " + err.Error()
	}
	runs, _, err := r.Run(path)
	if err != nil {
		o.cand.infra = true
		return false, path, err.Error()
	}
	sh := strings.TrimSuffix(path, ".json") + ".sh"
	os.WriteFile(sh, []byte("#!/bin/sh\n# native replay of "+name+" (expected to FAIL)\n"+r.GoTestCommand(path)+"\n"), 0o755)
	if len(runs) != 1 {
		o.cand.infra = true
		return false, path, fmt.Sprintf("native replay returned %d runs", len(runs))
	}
	run := runs[0]
	if strings.HasPrefix(run.End, "skipped:") {
		o.cand.skipped = strings.TrimPrefix(run.End, "skipped:")
		return false, path, "native twin skipped: " + o.cand.skipped
	}
	if run.Desync != "" {
		o.cand.infra = true
		return false, path, "native run consumed the assignment differently: " + run.Desync
	}
	if o.cand.expectP {
		if run.End == "panic" {
			return true, path, "native panic: " + run.Panic
		}
		return false, path, "native run ended with " + run.End + " instead of a panic"
	}
	for _, ev := range run.Events {
		if ev.K == "assert" && ev.ID == o.ID && !ev.OK {
			return true, path, "assertion fails natively"
		}
	}
	return false, path, "native run ended with " + run.End + " and the assertion did not fail"
}
