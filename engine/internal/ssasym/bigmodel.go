package ssasym

import (
	"fmt"
	"go/types"

	"golang.org/x/tools/go/ssa"
)

// Abstract big-integer model for pkg/base/nt/num (DESIGN §3.4 last row, property C17.a).
//
// The num types wrap numct / saferith / math/big (limb loops, assembly): not interpretable.
// A value of *num.Int, *num.Nat, *num.NatPlus, *num.Uint (and the two handles reached through
// (*num.Nat).Value() and (*numct.Nat).Big()) is modelled as a pointer to a slot holding a BigV:
// ONE bit-vector of BigW bits (two's complement for Int, unsigned otherwise). The model is
// exact as long as every value fits: the constructors check, with the solver, that the path
// condition entails the bound (otherwise not-encodable); no modelled operation can grow a value
// (Abs of the most negative Int still fits the unsigned width).
//
// Exactly the methods listed in bigStubs are modelled. Any other method of these types reaches
// the interpreter with a BigV where it expects a struct and is reported not-encodable - never
// silently wrong.

// BigW is the width of the abstract integers.
const BigW = 32

const (
	numPkg   = "github.com/bronlabs/bron-crypto/pkg/base/nt/num"
	numctPkg = "github.com/bronlabs/bron-crypto/pkg/base/nt/numct"
)

// BigV is the content of an abstract big-integer object.
type BigV struct {
	Kind string // Int Nat NatPlus Uint numct.Nat big.Int
	V    *Term  // BigW bits
	M    *Term  // Uint only: the modulus it was reduced by (informational)
}

func newBig(kind string, v, m *Term) PtrV {
	slot := new(Value)
	*slot = BigV{Kind: kind, V: v, M: m}
	return PtrV{P: slot}
}

// ---------- the mathematics, as pure functions on terms (tested against the real num) ----------

// bigAbs: |x| of a two's-complement BigW-bit integer, as an unsigned BigW-bit value.
func bigAbs(P *Pool, x *Term) *Term {
	return P.Ite(P.Slt(x, P.Const(x.W, 0)), P.Neg(x), x)
}

// bigIsNeg: x < 0.
func bigIsNeg(P *Pool, x *Term) *Term { return P.Slt(x, P.Const(x.W, 0)) }

// bigIntMod: the non-negative residue of the signed x modulo the unsigned m > 0.
func bigIntMod(P *Pool, x, m *Term) *Term {
	w := x.W + 2
	xe, me := P.SExt(x, w), P.ZExt(m, w)
	r := P.SRem(xe, me) // sign follows the dividend, |r| < m
	r = P.Ite(P.Slt(r, P.Const(w, 0)), P.Add(r, me), r)
	return P.Trunc(r, x.W)
}

// bigNatMod: x mod m for unsigned x, m > 0.
func bigNatMod(P *Pool, x, m *Term) *Term { return P.URem(x, m) }

// bigRsh: logical right shift by a 64-bit unsigned count.
func bigRsh(P *Pool, x, sh *Term) *Term {
	big := P.Ule(P.Const(sh.W, uint64(x.W)), sh)
	return P.Ite(big, P.Const(x.W, 0), P.LShr(x, P.Trunc(sh, x.W)))
}

// bigByte: byte i (0 = least significant) of the magnitude; 0 beyond the value.
func bigByte(P *Pool, x, i *Term) *Term {
	nbytes := uint64(x.W / 8)
	big := P.Ule(P.Const(i.W, nbytes), i)
	sh := P.Shl(P.Trunc(i, x.W), P.Const(x.W, 3))
	return P.Ite(big, P.Const(8, 0), P.Trunc(P.LShr(x, sh), 8))
}

// bigBit: bit i of the value as a uint (0 beyond the width; a negative index panics in math/big).
func bigBit(P *Pool, x, i *Term) *Term {
	big := P.Ule(P.Const(i.W, uint64(x.W)), i)
	b := P.And(P.LShr(x, P.Trunc(i, x.W)), P.Const(x.W, 1))
	return P.Ite(big, P.Const(64, 0), P.ZExt(b, 64))
}

// ---------- stubs ----------

// bigOf fetches the BigV behind a receiver / argument of the expected kind.
func (in *Interp) bigOf(fr *frame, v Value, kind, what string) BigV {
	if p, ok := v.(Poison); ok {
		panic(&abort{abNotEncodable, what + ": " + p.Why})
	}
	ptr, ok := v.(PtrV)
	if !ok || ptr.Sym != nil {
		panic(&abort{abNotEncodable, fmt.Sprintf("%s: receiver of kind %T", what, v)})
	}
	if ptr.P == nil {
		in.goPanicf(fr, "runtime error: invalid memory address or nil pointer dereference (%s)", what)
	}
	b, ok := (*ptr.P).(BigV)
	if !ok {
		panic(&abort{abNotEncodable, what + ": the object was not created by the abstract big-integer model (it is a real " + fmt.Sprintf("%T", *ptr.P) + ")"})
	}
	if b.Kind != kind {
		panic(&abort{abNotEncodable, fmt.Sprintf("%s: abstract integer of kind %s where %s is expected", what, b.Kind, kind)})
	}
	return b
}

// opaqueError is an error value whose identity and text are outside the model: only its
// non-nil-ness may be observed (errors.Is on it is not-encodable).
func (in *Interp) opaqueError(what string) Value {
	t := in.namedType("errors", "errorString")
	if t == nil {
		return in.notEncodable("%s: errors.errorString not loaded", what)
	}
	slot := new(Value)
	*slot = &NativeV{Kind: "opaque-error", Data: what}
	return IfaceV{T: types.NewPointer(t), V: PtrV{P: slot}}
}

// fits checks that the path condition entails that a 64-bit value fits the model width.
func (in *Interp) bigFits(v *Term, signed bool, what string) *Term {
	P := in.P
	t := P.Trunc(v, BigW)
	var back *Term
	if signed {
		back = P.SExt(t, 64)
	} else {
		back = P.ZExt(t, 64)
	}
	if !in.Ex.Entails(P.Eq(back, v)) {
		panic(&abort{abNotEncodable, fmt.Sprintf("%s: the path condition does not bound the value to %d bits (abstract big-integer model width)", what, BigW)})
	}
	return t
}

func bigStubs() {
	type sf = stubFn
	reg := func(name string, f sf) { stubs[name] = f }
	emptyStruct := func(in *Interp, fr *frame, fn *ssa.Function, a []Value) Value {
		slot := new(Value)
		*slot = StructV{}
		return PtrV{P: slot}
	}
	// the structure singletons (sync.Once in the real code)
	reg(numPkg+".Z", emptyStruct)
	reg(numPkg+".N", emptyStruct)
	reg(numPkg+".NPlus", emptyStruct)

	reg("(*"+numPkg+".Integers).FromInt64", func(in *Interp, fr *frame, fn *ssa.Function, a []Value) Value {
		return newBig("Int", in.bigFits(a[1].(*Term), true, "num.Z().FromInt64"), nil)
	})
	reg("(*"+numPkg+".NaturalNumbers).FromUint64", func(in *Interp, fr *frame, fn *ssa.Function, a []Value) Value {
		return newBig("Nat", in.bigFits(a[1].(*Term), false, "num.N().FromUint64"), nil)
	})
	reg("(*"+numPkg+".PositiveNaturalNumbers).FromUint64", func(in *Interp, fr *frame, fn *ssa.Function, a []Value) Value {
		v := a[1].(*Term)
		if in.branch(fr, in.P.Eq(v, in.P.Const(64, 0))) {
			return TupleV{PtrV{}, in.opaqueError("num.NPlus().FromUint64(0)")}
		}
		return TupleV{newBig("NatPlus", in.bigFits(v, false, "num.NPlus().FromUint64"), nil), IfaceV{}}
	})
	reg("(*"+numPkg+".PositiveNaturalNumbers).FromNat", func(in *Interp, fr *frame, fn *ssa.Function, a []Value) Value {
		if isNilValue(a[1]) {
			return TupleV{PtrV{}, in.opaqueError("num.NPlus().FromNat(nil)")}
		}
		n := in.bigOf(fr, a[1], "Nat", "num.NPlus().FromNat")
		if in.branch(fr, in.P.Eq(n.V, in.P.Const(BigW, 0))) {
			return TupleV{PtrV{}, in.opaqueError("num.NPlus().FromNat(0)")}
		}
		return TupleV{newBig("NatPlus", n.V, nil), IfaceV{}}
	})

	method := func(typ, name string, kind string, f func(in *Interp, fr *frame, recv BigV, a []Value) Value) {
		full := "(*" + numPkg + "." + typ + ")." + name
		reg(full, func(in *Interp, fr *frame, fn *ssa.Function, a []Value) Value {
			return f(in, fr, in.bigOf(fr, a[0], kind, "(*num."+typ+")."+name), a[1:])
		})
	}
	// *num.Int
	method("Int", "Abs", "Int", func(in *Interp, fr *frame, r BigV, a []Value) Value {
		return newBig("Nat", bigAbs(in.P, r.V), nil)
	})
	method("Int", "IsNegative", "Int", func(in *Interp, fr *frame, r BigV, a []Value) Value { return bigIsNeg(in.P, r.V) })
	method("Int", "Clone", "Int", func(in *Interp, fr *frame, r BigV, a []Value) Value { return newBig("Int", r.V, nil) })
	method("Int", "Mod", "Int", func(in *Interp, fr *frame, r BigV, a []Value) Value {
		m := in.bigOf(fr, a[0], "NatPlus", "(*num.Int).Mod modulus")
		return newBig("Uint", bigIntMod(in.P, r.V, m.V), m.V)
	})
	// *num.Nat
	method("Nat", "Mod", "Nat", func(in *Interp, fr *frame, r BigV, a []Value) Value {
		m := in.bigOf(fr, a[0], "NatPlus", "(*num.Nat).Mod modulus")
		return newBig("Uint", bigNatMod(in.P, r.V, m.V), m.V)
	})
	method("Nat", "IsZero", "Nat", func(in *Interp, fr *frame, r BigV, a []Value) Value {
		return in.P.Eq(r.V, in.P.Const(BigW, 0))
	})
	method("Nat", "Rsh", "Nat", func(in *Interp, fr *frame, r BigV, a []Value) Value {
		return newBig("Nat", bigRsh(in.P, r.V, a[0].(*Term)), nil)
	})
	method("Nat", "Byte", "Nat", func(in *Interp, fr *frame, r BigV, a []Value) Value { return bigByte(in.P, r.V, a[0].(*Term)) })
	method("Nat", "Clone", "Nat", func(in *Interp, fr *frame, r BigV, a []Value) Value { return newBig("Nat", r.V, nil) })
	method("Nat", "Value", "Nat", func(in *Interp, fr *frame, r BigV, a []Value) Value { return newBig("numct.Nat", r.V, nil) })
	// *num.NatPlus
	method("NatPlus", "Clone", "NatPlus", func(in *Interp, fr *frame, r BigV, a []Value) Value { return newBig("NatPlus", r.V, nil) })
	method("NatPlus", "IsEven", "NatPlus", func(in *Interp, fr *frame, r BigV, a []Value) Value {
		return in.P.Eq(in.P.Extract(r.V, 0, 0), in.P.Const(1, 0))
	})
	method("NatPlus", "IsOne", "NatPlus", func(in *Interp, fr *frame, r BigV, a []Value) Value {
		return in.P.Eq(r.V, in.P.Const(BigW, 1))
	})
	method("NatPlus", "Byte", "NatPlus", func(in *Interp, fr *frame, r BigV, a []Value) Value { return bigByte(in.P, r.V, a[0].(*Term)) })
	method("NatPlus", "Mod", "NatPlus", func(in *Interp, fr *frame, r BigV, a []Value) Value {
		m := in.bigOf(fr, a[0], "NatPlus", "(*num.NatPlus).Mod modulus")
		return newBig("Uint", bigNatMod(in.P, r.V, m.V), m.V)
	})
	// *num.Uint
	method("Uint", "Nat", "Uint", func(in *Interp, fr *frame, r BigV, a []Value) Value { return newBig("Nat", r.V, nil) })

	// the chain a.Value().Big().Bit(i)
	reg("(*"+numctPkg+".Nat).Big", func(in *Interp, fr *frame, fn *ssa.Function, a []Value) Value {
		r := in.bigOf(fr, a[0], "numct.Nat", "(*numct.Nat).Big")
		return newBig("big.Int", r.V, nil)
	})
	reg("(*math/big.Int).Bit", func(in *Interp, fr *frame, fn *ssa.Function, a []Value) Value {
		r := in.bigOf(fr, a[0], "big.Int", "(*big.Int).Bit")
		i := a[1].(*Term)
		in.panicIf(fr, in.P.Slt(i, in.P.Const(64, 0)), "big: negative bit index")
		return bigBit(in.P, r.V, i)
	})
}
