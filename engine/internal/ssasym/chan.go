package ssasym

import (
	"fmt"
	"go/types"

	"golang.org/x/tools/go/ssa"
)

// Minimal sequential model of channels and goroutines (README "Channels and goroutines").
//
// The interpreter runs ONE goroutine: the harness. Everything another goroutine could do is
// *environment* and must be driven by the harness explicitly (e.g. by calling deposit itself).
//
//   - `go f(...)` is recorded (result.json `goroutines_ignored`) and otherwise ignored.
//   - A channel is a FIFO of at most cap values plus a closed flag. There is never a partner
//     goroutine, so an unbuffered channel can neither be sent to nor received from unless closed.
//   - An operation that cannot proceed blocks forever in this model. The path is terminated by
//     a Go-level panic whose value is the harness-visible `verifBlocked{}`; deferred functions of
//     the interpreted code run while it propagates (as they would when the blocked call is
//     cancelled), and a harness may `recover()` it to inspect the state left behind.
//   - `select`: a send case is ready iff len < cap (panics if closed, like Go); a receive case is
//     ready iff a value is buffered or the channel is closed; nil channels are never ready. One
//     ready case is taken; several ready cases fork (one path each, Go chooses arbitrarily).
//     Non-blocking select with no ready case takes `default`; blocking select with no ready case
//     raises verifBlocked.
type ChanV struct {
	Cap    int
	Buf    []Value
	Closed bool
	Elem   types.Type
}

func (c *ChanV) sendReady() bool { return c != nil && (c.Closed || len(c.Buf) < c.Cap) }
func (c *ChanV) recvReady() bool { return c != nil && (len(c.Buf) > 0 || c.Closed) }

func asChan(v Value) (*ChanV, bool) {
	switch x := v.(type) {
	case nil:
		return nil, true
	case *ChanV:
		return x, true
	}
	return nil, false
}

// blockedPanic raises the distinguished "blocks forever" panic.
func (in *Interp) blockedPanic(fr *frame, what string) {
	msg := "blocks forever in the sequential channel model: " + what
	var val Value = IfaceV{T: types.Typ[types.String], V: StrV{S: "verifBlocked: " + msg}}
	if in.HarnessPkg != nil {
		if t := in.HarnessPkg.Type("verifBlocked"); t != nil {
			val = IfaceV{T: t.Type(), V: in.zero(t.Type())}
		}
	}
	panic(&goPanic{val: val, msg: msg, fn: fr.fn.String(), blocked: true})
}

func (in *Interp) makeChan(fr *frame, x *ssa.MakeChan) Value {
	n := in.concInt(fr, fr.get(x.Size), x.Size.Type(), "make(chan): size")
	if n < 0 || n > 1<<20 {
		in.goPanicf(fr, "makechan: size out of range")
	}
	return &ChanV{Cap: n, Elem: x.Type().Underlying().(*types.Chan).Elem()}
}

func (in *Interp) chanSend(fr *frame, cv Value, v Value) {
	if p, ok := cv.(Poison); ok {
		in.usePoison(p)
		return
	}
	c, ok := asChan(cv)
	if !ok {
		in.notEncodable("send on %T", cv)
		return
	}
	if c == nil {
		in.blockedPanic(fr, "send on nil channel")
	}
	if c.Closed {
		in.goPanicf(fr, "send on closed channel")
	}
	if len(c.Buf) >= c.Cap {
		in.blockedPanic(fr, fmt.Sprintf("send on a full channel (len %d, cap %d) with no receiver", len(c.Buf), c.Cap))
	}
	c.Buf = append(c.Buf, copyVal(v))
}

// chanRecv is `<-ch` (commaOk selects the two-result form).
func (in *Interp) chanRecv(fr *frame, cv Value, elem types.Type, commaOk bool) Value {
	if p, ok := cv.(Poison); ok {
		return in.usePoison(p)
	}
	c, ok := asChan(cv)
	if !ok {
		return in.notEncodable("receive from %T", cv)
	}
	if !c.recvReady() {
		if c == nil {
			in.blockedPanic(fr, "receive from nil channel")
		}
		in.blockedPanic(fr, "receive from an empty open channel with no sender")
	}
	v, okv := in.chanTake(c, elem)
	if commaOk {
		return TupleV{v, in.P.Bool(okv)}
	}
	return v
}

func (in *Interp) chanTake(c *ChanV, elem types.Type) (Value, bool) {
	if len(c.Buf) > 0 {
		v := c.Buf[0]
		c.Buf = append([]Value{}, c.Buf[1:]...)
		return v, true
	}
	return in.zero(elem), false // closed and drained
}

func (in *Interp) chanClose(fr *frame, cv Value) {
	c, ok := asChan(cv)
	if !ok {
		in.notEncodable("close of %T", cv)
		return
	}
	if c == nil {
		in.goPanicf(fr, "close of nil channel")
	}
	if c.Closed {
		in.goPanicf(fr, "close of closed channel")
	}
	c.Closed = true
}

// selectOp implements ssa.Select. Result tuple: (index int, recvOk bool, r_0, ..., r_{k-1}) with
// one r per receive state, in state order.
func (in *Interp) selectOp(fr *frame, x *ssa.Select) Value {
	type st struct {
		c    *ChanV
		send Value
	}
	states := make([]st, len(x.States))
	var ready []int
	for i, s := range x.States {
		cv := fr.get(s.Chan)
		if p, ok := cv.(Poison); ok {
			return in.usePoison(p)
		}
		c, ok := asChan(cv)
		if !ok {
			return in.notEncodable("select on %T", cv)
		}
		states[i].c = c
		if s.Dir == types.SendOnly {
			states[i].send = fr.get(s.Send)
			if c.sendReady() {
				ready = append(ready, i)
			}
		} else if c.recvReady() {
			ready = append(ready, i)
		}
	}
	// result tuple skeleton
	tu := TupleV{in.P.Const(64, 0), in.P.False}
	recvSlot := map[int]int{}
	for i, s := range x.States {
		if s.Dir != types.SendOnly {
			recvSlot[i] = len(tu)
			tu = append(tu, in.zero(s.Chan.Type().Underlying().(*types.Chan).Elem()))
		}
	}
	if len(ready) == 0 {
		if x.Blocking {
			in.blockedPanic(fr, fmt.Sprintf("select with %d case(s), none ready", len(x.States)))
		}
		tu[0] = in.P.Const(64, ^uint64(0))
		return tu
	}
	k := 0
	if len(ready) > 1 {
		k = in.Ex.Decide(len(ready), nil, "select with several ready cases in "+fr.fn.String())
	}
	i := ready[k]
	tu[0] = in.P.Const(64, uint64(i))
	if x.States[i].Dir == types.SendOnly {
		in.chanSend(fr, states[i].c, states[i].send)
		return tu
	}
	v, ok := in.chanTake(states[i].c, x.States[i].Chan.Type().Underlying().(*types.Chan).Elem())
	tu[1] = in.P.Bool(ok)
	tu[recvSlot[i]] = v
	return tu
}

// goStmt records a spawned goroutine and ignores it: it is environment.
func (in *Interp) goStmt(fr *frame, x *ssa.Go) {
	c := x.Common()
	if !c.IsInvoke() {
		if d := in.directive(c.StaticCallee(), replModeGoInline); d != nil {
			// harness directive: run the goroutine to completion at the spawn point
			in.noteDirective(d, c.StaticCallee())
			in.call(fr, c, x)
			return
		}
	}
	name := "<dynamic>"
	if c.IsInvoke() {
		name = "invoke " + c.Method.FullName()
	} else if f := c.StaticCallee(); f != nil {
		name = f.String()
	} else {
		name = "func value of type " + c.Value.Type().String()
	}
	in.GoIgnored[name+" (spawned in "+fr.fn.String()+")"] = true
}
