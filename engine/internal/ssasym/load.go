package ssasym

import (
	"fmt"
	"go/parser"
	"go/token"
	"os"
	"os/exec"
	"path/filepath"
	"sort"
	"strings"

	"golang.org/x/tools/go/packages"
	"golang.org/x/tools/go/ssa"
	"golang.org/x/tools/go/ssa/ssautil"
)

// RepoDir is the checkout of the library under test. SSASYM_REPO=<dir> points the engine (load
// and native replay) at another checkout, e.g. a scratch copy of /repo carrying a seeded change:
// mutation-testing a harness then needs no write access to /repo.
var RepoDir = func() string {
	if d := os.Getenv("SSASYM_REPO"); d != "" {
		return filepath.Clean(d)
	}
	return "/repo"
}()

const (
	RepoModule = "github.com/bronlabs/bron-crypto"
	GoBinary   = "go1.26.8"
	// BuildTags: purego (no BoringSSL in the sandbox) plus verif_e1, which guards the harness
	// sources so that they are invisible to ordinary builds of the verif/engine module.
	BuildTags = "purego,verif_e1"
)

// Loaded is a program with the harness overlaid into its target package.
type Loaded struct {
	Prog       *ssa.Program
	Pkg        *ssa.Package
	PkgPath    string // import path
	PkgDir     string // directory in /repo
	PkgName    string
	HarnessDir string
	// harness source files by role
	InterpFiles map[string]string // virtual path -> real path or "" when content is synthesised
	InterpSynth map[string][]byte // virtual path -> synthesised content
	ReplayFiles map[string]string // virtual path -> real path (native twin, harness files)
	HarnessFns  []string          // niladic functions found in the harness files
}

// goEnv is the environment for go commands run inside /repo (workspace mode: GOFLAGS empty).
func goEnv() []string {
	var env []string
	for _, kv := range os.Environ() {
		if strings.HasPrefix(kv, "GOFLAGS=") || strings.HasPrefix(kv, "GOPROXY=") || strings.HasPrefix(kv, "GOSUMDB=") ||
			strings.HasPrefix(kv, "GOTOOLCHAIN=") || strings.HasPrefix(kv, "GOWORK=") {
			continue
		}
		env = append(env, kv)
	}
	return append(env, "GOFLAGS=", "GOPROXY=off", "GOSUMDB=off", "GOTOOLCHAIN=local")
}

// FixGoPath makes "go" resolve to the go1.26.8 toolchain for go/packages.
func FixGoPath() error {
	p, err := exec.LookPath(GoBinary)
	if err != nil {
		return fmt.Errorf("%s not found in PATH: %w", GoBinary, err)
	}
	real, err := filepath.EvalSymlinks(p)
	if err != nil {
		return err
	}
	dir := filepath.Dir(real)
	if filepath.Base(real) != "go" {
		// make a private directory with a "go" symlink
		tmp, err := os.MkdirTemp("", "ssasym-go")
		if err != nil {
			return err
		}
		if err := os.Symlink(real, filepath.Join(tmp, "go")); err != nil {
			return err
		}
		dir = tmp
	}
	return os.Setenv("PATH", dir+string(os.PathListSeparator)+os.Getenv("PATH"))
}

func resolvePkg(arg string) (dir, path string, err error) {
	switch {
	case strings.HasPrefix(arg, "./") || strings.HasPrefix(arg, "../"):
		dir = filepath.Join(RepoDir, arg)
	case strings.HasPrefix(arg, RepoDir+"/"):
		dir = arg
	case strings.HasPrefix(arg, RepoModule+"/"):
		dir = filepath.Join(RepoDir, strings.TrimPrefix(arg, RepoModule+"/"))
	case arg == RepoModule:
		dir = RepoDir
	default:
		return "", "", fmt.Errorf("package %q is not inside %s", arg, RepoModule)
	}
	dir = filepath.Clean(dir)
	rel, err := filepath.Rel(RepoDir, dir)
	if err != nil || strings.HasPrefix(rel, "..") {
		return "", "", fmt.Errorf("package directory %s is outside %s", dir, RepoDir)
	}
	if st, err := os.Stat(dir); err != nil || !st.IsDir() {
		return "", "", fmt.Errorf("package directory %s does not exist", dir)
	}
	path = RepoModule
	if rel != "." {
		path += "/" + filepath.ToSlash(rel)
	}
	return dir, path, nil
}

// Load type-checks the target package with the harness overlaid and builds SSA for the whole
// program with instantiated generics.
func Load(pkgArg, harnessDir string) (*Loaded, error) {
	dir, path, err := resolvePkg(pkgArg)
	if err != nil {
		return nil, err
	}
	harnessDir, err = filepath.Abs(harnessDir)
	if err != nil {
		return nil, err
	}
	files, err := filepath.Glob(filepath.Join(harnessDir, "zz_verif_*.go"))
	if err != nil {
		return nil, err
	}
	sort.Strings(files)
	if len(files) == 0 {
		return nil, fmt.Errorf("no zz_verif_*.go files in %s", harnessDir)
	}
	L := &Loaded{PkgPath: path, PkgDir: dir, HarnessDir: harnessDir,
		InterpFiles: map[string]string{}, InterpSynth: map[string][]byte{}, ReplayFiles: map[string]string{}}
	fset := token.NewFileSet()
	haveIntr, haveNative := false, false
	for _, f := range files {
		base := filepath.Base(f)
		virt := filepath.Join(dir, base)
		switch {
		case strings.HasSuffix(base, "_test.go"):
			L.ReplayFiles[virt] = f
			continue
		case strings.HasSuffix(base, "_native.go"):
			L.ReplayFiles[virt] = f
			haveNative = true
			continue
		case base == "zz_verif_intrinsics.go":
			L.InterpFiles[virt] = f
			haveIntr = true
			continue
		}
		L.InterpFiles[virt] = f
		L.ReplayFiles[virt] = f
		af, err := parser.ParseFile(fset, f, nil, parser.SkipObjectResolution)
		if err != nil {
			return nil, fmt.Errorf("harness file %s: %w", f, err)
		}
		if L.PkgName == "" {
			L.PkgName = af.Name.Name
		} else if L.PkgName != af.Name.Name {
			return nil, fmt.Errorf("harness files disagree on the package name (%s vs %s)", L.PkgName, af.Name.Name)
		}
		L.HarnessFns = append(L.HarnessFns, niladicFuncs(af)...)
	}
	if L.PkgName == "" {
		return nil, fmt.Errorf("no harness source file in %s", harnessDir)
	}
	if !haveIntr {
		L.InterpSynth[filepath.Join(dir, "zz_verif_intrinsics.go")] = []byte(strings.ReplaceAll(intrinsicsDecl, "PKGNAME", L.PkgName))
	}
	_ = haveNative

	overlay := map[string][]byte{}
	for virt, real := range L.InterpFiles {
		b, err := os.ReadFile(real)
		if err != nil {
			return nil, err
		}
		overlay[virt] = b
	}
	for virt, b := range L.InterpSynth {
		overlay[virt] = b
	}
	cfg := &packages.Config{
		Mode:       packages.LoadAllSyntax,
		Dir:        RepoDir,
		BuildFlags: []string{"-tags=" + BuildTags},
		Env:        goEnv(),
		Overlay:    overlay,
		Tests:      false,
	}
	pkgs, err := packages.Load(cfg, path)
	if err != nil {
		return nil, fmt.Errorf("packages.Load: %w", err)
	}
	var errs []string
	packages.Visit(pkgs, nil, func(p *packages.Package) {
		for _, e := range p.Errors {
			// bodyless intrinsics are reported by the type checker as "missing function body"
			if strings.Contains(e.Msg, "missing function body") {
				continue
			}
			errs = append(errs, e.Error())
		}
	})
	if len(errs) > 0 {
		if len(errs) > 20 {
			errs = errs[:20]
		}
		return nil, fmt.Errorf("load errors:\n  %s", strings.Join(errs, "\n  "))
	}
	prog, ssaPkgs := ssautil.AllPackages(pkgs, ssa.InstantiateGenerics)
	prog.Build()
	if len(ssaPkgs) != 1 || ssaPkgs[0] == nil {
		return nil, fmt.Errorf("expected exactly one root package, got %d", len(ssaPkgs))
	}
	L.Prog = prog
	L.Pkg = ssaPkgs[0]
	return L, nil
}
