package ssasym

import (
	"fmt"
	"go/types"
	"math/big"
	"strings"

	"golang.org/x/tools/go/ssa"
)

// intrinsics are the harness primitives, looked up by bare function name in the target package.
var intrinsics map[string]stubFn

// stubs are engine-native implementations keyed by ssa.Function.String() (origin name for
// generic instances).
var stubs map[string]stubFn

func init() {
	intrinsics = map[string]stubFn{
		"verifU8":     func(in *Interp, fr *frame, fn *ssa.Function, a []Value) Value { return in.Ex.Input("u8", 8) },
		"verifU16":    func(in *Interp, fr *frame, fn *ssa.Function, a []Value) Value { return in.Ex.Input("u16", 16) },
		"verifU32":    func(in *Interp, fr *frame, fn *ssa.Function, a []Value) Value { return in.Ex.Input("u32", 32) },
		"verifU64":    func(in *Interp, fr *frame, fn *ssa.Function, a []Value) Value { return in.Ex.Input("u64", 64) },
		"verifInt":    func(in *Interp, fr *frame, fn *ssa.Function, a []Value) Value { return in.Ex.Input("int", 64) },
		"verifUint":   func(in *Interp, fr *frame, fn *ssa.Function, a []Value) Value { return in.Ex.Input("uint", 64) },
		"verifBool":   func(in *Interp, fr *frame, fn *ssa.Function, a []Value) Value { return in.Ex.Input("bool", 0) },
		"verifBytes":  intrVec("bytes", 8),
		"verifU64s":   intrVec("u64s", 64),
		"verifLen":    intrLen,
		"verifAssume": intrAssume,
		"verifAssert": intrAssert,
		// verifAssertGhost: an obligation whose condition reads ghost state written by harness
		// contracts. Checked like verifAssert; a counterexample cannot be confirmed by the native
		// twin (it runs the real functions, the ghost state stays empty) and is inconclusive.
		"verifAssertGhost": func(in *Interp, fr *frame, fn *ssa.Function, a []Value) Value {
			id := in.constStr(a[0], "verifAssertGhost id")
			if p, ok := a[1].(Poison); ok {
				panic(&abort{abNotEncodable, "verifAssertGhost(" + id + ") on a value that could not be encoded: " + p.Why})
			}
			in.Ex.AssertKind(id, a[1].(*Term), true)
			return nil
		},
		"verifReach": func(in *Interp, fr *frame, fn *ssa.Function, a []Value) Value {
			in.Ex.Reach(in.constStr(a[0], "verifReach id"))
			return nil
		},
		"verifObserve": func(in *Interp, fr *frame, fn *ssa.Function, a []Value) Value {
			in.Ex.Observe(in.constStr(a[0], "verifObserve id"), a[1].(*Term))
			return nil
		},
		// verifNative: false here, true in the native twin. Only for code that must differ
		// between the twins because of the blocking model (chan.go).
		"verifNative": func(in *Interp, fr *frame, fn *ssa.Function, a []Value) Value { return in.P.False },
		// verifSkipReplay: native-only marker; unreachable here when guarded by verifNative().
		"verifSkipReplay": func(in *Interp, fr *frame, fn *ssa.Function, a []Value) Value { return nil },
		// verifSameValue(a, b): structural equality of two values of the same type as a Bool term,
		// also for types Go does not let you compare with == (structs with a [0]func() guard).
		// Pointers, slices, maps, funcs, channels compare by identity. Natively reflect.DeepEqual.
		"verifSameValue": func(in *Interp, fr *frame, fn *ssa.Function, a []Value) Value {
			x, ok1 := a[0].(IfaceV)
			y, ok2 := a[1].(IfaceV)
			if !ok1 || !ok2 {
				return in.notEncodable("verifSameValue on %T, %T", a[0], a[1])
			}
			if x.T == nil || y.T == nil {
				return in.P.Bool(x.T == nil && y.T == nil)
			}
			if !types.Identical(x.T, y.T) {
				return in.P.False
			}
			return in.sameValue(x.V, y.V)
		},
		"verifB2U": func(in *Interp, fr *frame, fn *ssa.Function, a []Value) Value {
			if p, ok := a[0].(Poison); ok {
				return in.usePoison(p)
			}
			return in.P.BoolToBV(a[0].(*Term), 64)
		},
		"verifIteU64": func(in *Interp, fr *frame, fn *ssa.Function, a []Value) Value {
			for _, x := range a {
				if p, ok := x.(Poison); ok {
					return in.usePoison(p)
				}
			}
			return in.P.Ite(a[0].(*Term), a[1].(*Term), a[2].(*Term))
		},
		"verifSpecAddMod4": specMod("add", 4), "verifSpecSubMod4": specMod("sub", 4), "verifSpecNegMod4": specMod("neg", 4),
		"verifSpecAddMod6": specMod("add", 6), "verifSpecSubMod6": specMod("sub", 6), "verifSpecNegMod6": specMod("neg", 6),
		"verifSpecLess4": specLess(4), "verifSpecLess6": specLess(6),
	}

	stubs = map[string]stubFn{}
	bitsStubs()
	bytesStubs()
	miscStubs()
	hashStubs()
	containerStubs()
	bigStubs()
}

// sameValue is eqValue without Go's comparability rules (slices by identity of backing store and
// length, funcs/maps/channels by identity).
func (in *Interp) sameValue(a, b Value) *Term {
	P := in.P
	switch x := a.(type) {
	case ArrayV:
		y, ok := b.(ArrayV)
		if !ok || len(x) != len(y) {
			return P.False
		}
		acc := P.True
		for i := range x {
			acc = P.And(acc, in.sameValue(x[i], y[i]))
		}
		return acc
	case StructV:
		y, ok := b.(StructV)
		if !ok || len(x) != len(y) {
			return P.False
		}
		acc := P.True
		for i := range x {
			acc = P.And(acc, in.sameValue(x[i], y[i]))
		}
		return acc
	case SliceV:
		y, ok := b.(SliceV)
		if !ok || len(x.E) != len(y.E) {
			return P.False
		}
		if len(x.E) == 0 {
			return P.Bool((x.E == nil) == (y.E == nil))
		}
		return P.Bool(&x.E[0] == &y.E[0])
	case *ClosureV:
		y, ok := b.(*ClosureV)
		return P.Bool(ok && x == y)
	case *MapV:
		y, ok := b.(*MapV)
		return P.Bool(ok && x == y)
	case IfaceV:
		y, ok := b.(IfaceV)
		if !ok {
			return P.False
		}
		if x.T == nil || y.T == nil {
			return P.Bool(x.T == nil && y.T == nil)
		}
		if !types.Identical(x.T, y.T) {
			return P.False
		}
		return in.sameValue(x.V, y.V)
	}
	return in.eqValue(a, b)
}

func (in *Interp) constStr(v Value, what string) string {
	s, ok := v.(StrV)
	if !ok || s.Sym != nil || s.Opaque {
		panic(&abort{abNotEncodable, what + " must be a constant string"})
	}
	return s.S
}

func (in *Interp) constInt(v Value, what string) int {
	t, ok := v.(*Term)
	if !ok || !t.IsConst() {
		panic(&abort{abNotEncodable, what + " must be a concrete integer"})
	}
	return int(t.S64())
}

func intrVec(kind string, w int) stubFn {
	return func(in *Interp, fr *frame, fn *ssa.Function, a []Value) Value {
		n := in.constInt(a[0], "length argument of verif"+kind)
		if n < 0 || n > 1<<20 {
			panic(&abort{abNotEncodable, "bad length for verif" + kind})
		}
		ts := in.Ex.InputVec(kind, w, n)
		e := make([]Value, n)
		for i, t := range ts {
			e[i] = t
		}
		return SliceV{E: e}
	}
}

func intrLen(in *Interp, fr *frame, fn *ssa.Function, a []Value) Value {
	lo := in.constInt(a[0], "verifLen lo")
	hi := in.constInt(a[1], "verifLen hi")
	if hi < lo {
		panic(&abort{abNotEncodable, "verifLen: hi < lo"})
	}
	return in.P.Const(64, uint64(in.Ex.Len(lo, hi)))
}

func intrAssume(in *Interp, fr *frame, fn *ssa.Function, a []Value) Value {
	if p, ok := a[0].(Poison); ok {
		panic(&abort{abNotEncodable, "verifAssume on a value that could not be encoded: " + p.Why})
	}
	in.Ex.Assume(a[0].(*Term))
	return nil
}

func intrAssert(in *Interp, fr *frame, fn *ssa.Function, a []Value) Value {
	id := in.constStr(a[0], "verifAssert id")
	if p, ok := a[1].(Poison); ok {
		panic(&abort{abNotEncodable, "verifAssert(" + id + ") on a value that could not be encoded: " + p.Why})
	}
	in.Ex.Assert(id, a[1].(*Term))
	return nil
}

// ---------- wide specification arithmetic (little-endian uint64 limbs) ----------

func (in *Interp) limbsToWide(v Value, n int) *Term {
	arr := v.(ArrayV)
	if len(arr) != n {
		panic("engine: limb count mismatch in spec intrinsic")
	}
	var acc *Term
	for i := n - 1; i >= 0; i-- {
		l := arr[i].(*Term)
		if acc == nil {
			acc = l
		} else {
			acc = in.P.Concat(acc, l)
		}
	}
	return acc
}

func (in *Interp) wideToLimbs(t *Term, n int) Value {
	out := make(ArrayV, n)
	for i := 0; i < n; i++ {
		out[i] = in.P.Extract(t, 64*i+63, 64*i)
	}
	return out
}

// specMod implements verifSpec{Add,Sub,Neg}Mod{4,6}: the mathematical (a op b) mod p on
// 64n-bit little-endian limb vectors, computed at width 64n+1. When the path condition
// entails a<p and b<p the reduction is a single conditional subtraction/addition (equal to
// the remainder there); otherwise a genuine bvurem is used.
func specMod(op string, n int) stubFn {
	return func(in *Interp, fr *frame, fn *ssa.Function, args []Value) Value {
		for _, a := range args {
			if p, ok := a.(Poison); ok {
				return in.usePoison(p)
			}
		}
		P := in.P
		W := 64*n + 1
		var a, b, p *Term
		if op == "neg" {
			a = P.Const(W, 0)
			b = P.ZExt(in.limbsToWide(args[0], n), W)
			p = P.ZExt(in.limbsToWide(args[1], n), W)
		} else {
			a = P.ZExt(in.limbsToWide(args[0], n), W)
			b = P.ZExt(in.limbsToWide(args[1], n), W)
			p = P.ZExt(in.limbsToWide(args[2], n), W)
		}
		in.panicIf(fr, P.Eq(p, P.Const(W, 0)), "spec intrinsic: zero modulus")
		inRange := P.And(P.Ult(a, p), P.Ult(b, p))
		reduced := in.Ex.Entails(inRange)
		var r *Term
		switch {
		case reduced && op == "add":
			s := P.Add(a, b)
			r = P.Ite(P.Ule(p, s), P.Sub(s, p), s)
		case reduced: // sub, neg
			d := P.Sub(a, b)
			r = P.Ite(P.Ult(a, b), P.Add(d, p), d)
		case op == "add":
			r = P.URem(P.Add(P.URem(a, p), P.URem(b, p)), p)
		default:
			// (a - b) mod p = (a mod p + p - b mod p) mod p
			r = P.URem(P.Sub(P.Add(P.URem(a, p), p), P.URem(b, p)), p)
		}
		return in.wideToLimbs(P.Trunc(r, 64*n), n)
	}
}

func specLess(n int) stubFn {
	return func(in *Interp, fr *frame, fn *ssa.Function, args []Value) Value {
		for _, a := range args {
			if p, ok := a.(Poison); ok {
				return in.usePoison(p)
			}
		}
		return in.P.Ult(in.limbsToWide(args[0], n), in.limbsToWide(args[1], n))
	}
}

// ---------- math/bits ----------

func (in *Interp) bit(x *Term, i int) *Term { return in.P.Extract(x, i, i) }

func bitsStubs() {
	addN := func(w int) stubFn {
		return func(in *Interp, fr *frame, fn *ssa.Function, a []Value) Value {
			P := in.P
			x, y, c := a[0].(*Term), a[1].(*Term), a[2].(*Term)
			sum := P.Add(P.Add(x, y), c)
			// carryOut = ((x & y) | ((x | y) &^ sum)) >> (w-1), exactly as math/bits
			co := P.LShr(P.Or(P.And(x, y), P.AndNot(P.Or(x, y), sum)), P.Const(w, uint64(w-1)))
			return TupleV{sum, co}
		}
	}
	subN := func(w int) stubFn {
		return func(in *Interp, fr *frame, fn *ssa.Function, a []Value) Value {
			P := in.P
			x, y, b := a[0].(*Term), a[1].(*Term), a[2].(*Term)
			diff := P.Sub(P.Sub(x, y), b)
			// borrowOut = ((^x & y) | (^(x ^ y) & diff)) >> (w-1)
			bo := P.LShr(P.Or(P.And(P.Not(x), y), P.And(P.Not(P.Xor(x, y)), diff)), P.Const(w, uint64(w-1)))
			return TupleV{diff, bo}
		}
	}
	mulN := func(w int) stubFn {
		return func(in *Interp, fr *frame, fn *ssa.Function, a []Value) Value {
			P := in.P
			x, y := a[0].(*Term), a[1].(*Term)
			wide := P.Mul(P.ZExt(x, 2*w), P.ZExt(y, 2*w))
			return TupleV{P.Extract(wide, 2*w-1, w), P.Extract(wide, w-1, 0)}
		}
	}
	stubs["math/bits.Add64"], stubs["math/bits.Add"], stubs["math/bits.Add32"] = addN(64), addN(64), addN(32)
	stubs["math/bits.Sub64"], stubs["math/bits.Sub"], stubs["math/bits.Sub32"] = subN(64), subN(64), subN(32)
	stubs["math/bits.Mul64"], stubs["math/bits.Mul"], stubs["math/bits.Mul32"] = mulN(64), mulN(64), mulN(32)

	lenN := func(in *Interp, x *Term) *Term {
		P := in.P
		acc := P.Const(64, 0)
		for i := 0; i < x.W; i++ {
			acc = P.Ite(P.Eq(in.bit(x, i), P.Const(1, 1)), P.Const(64, uint64(i+1)), acc)
		}
		return acc
	}
	tzN := func(in *Interp, x *Term) *Term {
		P := in.P
		acc := P.Const(64, uint64(x.W))
		for i := x.W - 1; i >= 0; i-- {
			acc = P.Ite(P.Eq(in.bit(x, i), P.Const(1, 1)), P.Const(64, uint64(i)), acc)
		}
		return acc
	}
	for _, s := range []string{"", "8", "16", "32", "64"} {
		stubs["math/bits.Len"+s] = func(in *Interp, fr *frame, fn *ssa.Function, a []Value) Value {
			return lenN(in, a[0].(*Term))
		}
		stubs["math/bits.LeadingZeros"+s] = func(in *Interp, fr *frame, fn *ssa.Function, a []Value) Value {
			x := a[0].(*Term)
			return in.P.Sub(in.P.Const(64, uint64(x.W)), lenN(in, x))
		}
		stubs["math/bits.TrailingZeros"+s] = func(in *Interp, fr *frame, fn *ssa.Function, a []Value) Value {
			return tzN(in, a[0].(*Term))
		}
		stubs["math/bits.OnesCount"+s] = func(in *Interp, fr *frame, fn *ssa.Function, a []Value) Value {
			x := a[0].(*Term)
			acc := in.P.Const(64, 0)
			for i := 0; i < x.W; i++ {
				acc = in.P.Add(acc, in.P.ZExt(in.bit(x, i), 64))
			}
			return acc
		}
		stubs["math/bits.Reverse"+s] = func(in *Interp, fr *frame, fn *ssa.Function, a []Value) Value {
			x := a[0].(*Term)
			var acc *Term
			for i := 0; i < x.W; i++ { // bit 0 becomes the top bit
				if acc == nil {
					acc = in.bit(x, i)
				} else {
					acc = in.P.Concat(acc, in.bit(x, i))
				}
			}
			return acc
		}
		if s != "8" {
			stubs["math/bits.ReverseBytes"+s] = func(in *Interp, fr *frame, fn *ssa.Function, a []Value) Value {
				x := a[0].(*Term)
				var acc *Term
				for i := 0; i < x.W/8; i++ {
					b := in.P.Extract(x, 8*i+7, 8*i)
					if acc == nil {
						acc = b
					} else {
						acc = in.P.Concat(acc, b)
					}
				}
				return acc
			}
		}
		stubs["math/bits.RotateLeft"+s] = func(in *Interp, fr *frame, fn *ssa.Function, a []Value) Value {
			P := in.P
			x, k := a[0].(*Term), a[1].(*Term)
			w := x.W
			// s := uint(k) & (n-1); x<<s | x>>(n-s)
			sh := P.Trunc(P.And(k, P.Const(64, uint64(w-1))), w)
			if w > 64 {
				panic("engine: rotate width")
			}
			return P.Or(P.Shl(x, sh), P.LShr(x, P.Sub(P.Const(w, uint64(w)), sh)))
		}
	}
}

// ---------- bytes, crypto/subtle ----------

func (in *Interp) byteTerms(fr *frame, v Value) []*Term {
	s := v.(SliceV)
	out := make([]*Term, len(s.E))
	for i, e := range s.E {
		t, ok := e.(*Term)
		if !ok {
			panic(&abort{abNotEncodable, "byte slice element could not be encoded"})
		}
		out[i] = t
	}
	return out
}

func bytesStubs() {
	stubs["bytes.Equal"] = func(in *Interp, fr *frame, fn *ssa.Function, a []Value) Value {
		x, y := in.byteTerms(fr, a[0]), in.byteTerms(fr, a[1])
		if len(x) != len(y) {
			return in.P.False
		}
		acc := in.P.True
		for i := range x {
			acc = in.P.And(acc, in.P.Eq(x[i], y[i]))
		}
		return acc
	}
	stubs["bytes.Compare"] = func(in *Interp, fr *frame, fn *ssa.Function, a []Value) Value {
		return in.cmpBytes(in.byteTerms(fr, a[0]), in.byteTerms(fr, a[1]))
	}
	stubs["crypto/subtle.XORBytes"] = func(in *Interp, fr *frame, fn *ssa.Function, a []Value) Value {
		dst := a[0].(SliceV)
		x, y := in.byteTerms(fr, a[1]), in.byteTerms(fr, a[2])
		n := len(x)
		if len(y) < n {
			n = len(y)
		}
		if n == 0 {
			return in.P.Const(64, 0)
		}
		if n > len(dst.E) {
			in.goPanicf(fr, "subtle.XORBytes: dst too short")
		}
		// crypto/subtle panics on inexact overlap of dst with x or y
		overlap := func(src SliceV) bool {
			if len(src.E) == 0 {
				return false
			}
			for i := 0; i < n; i++ {
				for j := 0; j < n; j++ {
					if &dst.E[i] == &src.E[j] && i != j {
						return true
					}
				}
			}
			return false
		}
		if overlap(a[1].(SliceV)) || overlap(a[2].(SliceV)) {
			in.goPanicf(fr, "subtle.XORBytes: invalid overlap")
		}
		for i := 0; i < n; i++ {
			dst.E[i] = in.P.Xor(x[i], y[i])
		}
		return in.P.Const(64, uint64(n))
	}
	stubs["crypto/subtle.ConstantTimeCompare"] = func(in *Interp, fr *frame, fn *ssa.Function, a []Value) Value {
		x, y := in.byteTerms(fr, a[0]), in.byteTerms(fr, a[1])
		if len(x) != len(y) {
			return in.P.Const(64, 0)
		}
		acc := in.P.True
		for i := range x {
			acc = in.P.And(acc, in.P.Eq(x[i], y[i]))
		}
		return in.P.BoolToBV(acc, 64)
	}
	stubs["crypto/subtle.ConstantTimeCopy"] = func(in *Interp, fr *frame, fn *ssa.Function, a []Value) Value {
		P := in.P
		v := a[0].(*Term)
		xs := a[1].(SliceV)
		x, y := in.byteTerms(fr, a[1]), in.byteTerms(fr, a[2])
		if len(x) != len(y) {
			in.goPanicf(fr, "subtle: slices have different lengths")
		}
		xmask := P.Trunc(P.Sub(v, P.Const(64, 1)), 8)
		ymask := P.Trunc(P.Not(P.Sub(v, P.Const(64, 1))), 8)
		for i := range x {
			xs.E[i] = P.Or(P.And(x[i], xmask), P.And(y[i], ymask))
		}
		return nil
	}
	stubs["crypto/subtle.ConstantTimeSelect"] = func(in *Interp, fr *frame, fn *ssa.Function, a []Value) Value {
		P := in.P
		v, x, y := a[0].(*Term), a[1].(*Term), a[2].(*Term)
		m := P.Sub(v, P.Const(64, 1))
		return P.Or(P.And(P.Not(m), x), P.And(m, y))
	}
	stubs["crypto/subtle.ConstantTimeByteEq"] = func(in *Interp, fr *frame, fn *ssa.Function, a []Value) Value {
		return in.P.BoolToBV(in.P.Eq(a[0].(*Term), a[1].(*Term)), 64)
	}
	stubs["crypto/subtle.ConstantTimeEq"] = func(in *Interp, fr *frame, fn *ssa.Function, a []Value) Value {
		return in.P.BoolToBV(in.P.Eq(a[0].(*Term), a[1].(*Term)), 64)
	}
	stubs["crypto/subtle.ConstantTimeLessOrEq"] = func(in *Interp, fr *frame, fn *ssa.Function, a []Value) Value {
		P := in.P
		x32, y32 := P.Trunc(a[0].(*Term), 32), P.Trunc(a[1].(*Term), 32)
		d := P.Sub(P.Sub(x32, y32), P.Const(32, 1))
		return P.And(P.SExt(P.AShr(d, P.Const(32, 31)), 64), P.Const(64, 1))
	}
}

// ---------- fmt, errors, reflect, runtime, sync ----------

func opaqueStr() StrV { return StrV{Opaque: true} }

func (in *Interp) namedType(pkgPath, name string) types.Type {
	for _, p := range in.Prog.AllPackages() {
		if p.Pkg.Path() == pkgPath {
			if o := p.Pkg.Scope().Lookup(name); o != nil {
				return o.Type()
			}
		}
	}
	return nil
}

func miscStubs() {
	retOpaque := func(in *Interp, fr *frame, fn *ssa.Function, a []Value) Value { return opaqueStr() }
	for _, n := range []string{"fmt.Sprint", "fmt.Sprintln"} {
		stubs[n] = retOpaque
	}
	// Sprintf: exact for a verb-free constant format without arguments (the errs.New("literal")
	// idiom); otherwise opaque, known non-empty when the format starts with a literal character.
	stubs["fmt.Sprintf"] = func(in *Interp, fr *frame, fn *ssa.Function, a []Value) Value {
		f, ok := a[0].(StrV)
		if !ok || f.Opaque || f.Sym != nil {
			return opaqueStr()
		}
		nargs := -1
		if len(a) > 1 {
			if sl, ok := a[1].(SliceV); ok {
				nargs = len(sl.E)
			}
		}
		if nargs == 0 && !strings.Contains(f.S, "%") {
			return StrV{S: f.S}
		}
		return StrV{Opaque: true, NonEmpty: len(f.S) > 0 && f.S[0] != '%'}
	}
	for _, n := range []string{"fmt.Printf", "fmt.Println", "fmt.Print", "fmt.Fprintf", "fmt.Fprintln", "fmt.Fprint"} {
		stubs[n] = func(in *Interp, fr *frame, fn *ssa.Function, a []Value) Value {
			return TupleV{in.P.Const(64, 0), IfaceV{}}
		}
	}
	stubs["fmt.Errorf"] = func(in *Interp, fr *frame, fn *ssa.Function, a []Value) Value {
		// an error value distinct from every other, message opaque, wrapping nothing
		t := in.namedType("errors", "errorString")
		if t == nil {
			return in.notEncodable("fmt.Errorf: errors.errorString not loaded")
		}
		slot := new(Value)
		*slot = StructV{opaqueStr()}
		return IfaceV{T: types.NewPointer(t), V: PtrV{P: slot}}
	}
	stubs["runtime.Caller"] = func(in *Interp, fr *frame, fn *ssa.Function, a []Value) Value {
		return TupleV{in.P.Const(64, 0), opaqueStr(), in.P.Const(64, 0), in.P.False}
	}
	stubs["runtime.KeepAlive"] = func(in *Interp, fr *frame, fn *ssa.Function, a []Value) Value { return nil }
	stubs["github.com/bronlabs/errs-go/errs.NewStackFrame"] = func(in *Interp, fr *frame, fn *ssa.Function, a []Value) Value {
		return PtrV{}
	}
	stubs["reflect.TypeOf"] = func(in *Interp, fr *frame, fn *ssa.Function, a []Value) Value {
		iv, ok := a[0].(IfaceV)
		if !ok {
			return in.notEncodable("reflect.TypeOf on %T", a[0])
		}
		if iv.T == nil {
			return IfaceV{}
		}
		return IfaceV{T: types.Typ[types.UnsafePointer], V: &NativeV{Kind: "reflect.Type", Type: iv.T}}
	}
	stubs["errors.Is"] = func(in *Interp, fr *frame, fn *ssa.Function, a []Value) Value {
		e, ok1 := a[0].(IfaceV)
		t, ok2 := a[1].(IfaceV)
		if !ok1 || !ok2 {
			return in.notEncodable("errors.Is on %T, %T", a[0], a[1])
		}
		return in.P.Bool(in.errorsIs(fr, e, t, 0))
	}
	nop := func(in *Interp, fr *frame, fn *ssa.Function, a []Value) Value { return nil }
	for _, n := range []string{"(*sync.Mutex).Lock", "(*sync.Mutex).Unlock", "(*sync.RWMutex).Lock", "(*sync.RWMutex).Unlock",
		"(*sync.RWMutex).RLock", "(*sync.RWMutex).RUnlock"} {
		stubs[n] = nop
	}
}

// errorsIs is errors.Is: identity along the Unwrap chain, honouring Is methods.
func (in *Interp) errorsIs(fr *frame, err, target IfaceV, depth int) bool {
	if depth > 64 {
		panic(&abort{abNotEncodable, "errors.Is: wrap chain too deep"})
	}
	if err.T == nil || target.T == nil {
		return err.T == nil && target.T == nil
	}
	for _, x := range []IfaceV{err, target} {
		if pv, ok := x.V.(PtrV); ok && pv.P != nil {
			if nv, ok := (*pv.P).(*NativeV); ok && nv.Kind == "opaque-error" {
				panic(&abort{abNotEncodable, "errors.Is on an error produced by an engine model (" + fmt.Sprint(nv.Data) + "): its identity is outside the model"})
			}
		}
	}
	cmp := types.Comparable(target.T)
	for {
		if cmp && types.Identical(err.T, target.T) {
			eq := in.eqValue(err.V, target.V)
			if !eq.IsConst() {
				panic(&abort{abNotEncodable, "errors.Is: symbolic error identity"})
			}
			if eq.V == 1 {
				return true
			}
		}
		ms := in.Prog.MethodSets.MethodSet(err.T)
		if sel := ms.Lookup(nil, "Is"); sel != nil {
			if sig, ok := sel.Type().(*types.Signature); ok && sig.Params().Len() == 1 && sig.Results().Len() == 1 && isBoolType(sig.Results().At(0).Type()) {
				r := in.callFn(fr, in.Prog.MethodValue(sel), []Value{err.V, target}, nil, nil)
				b, ok := r.(*Term)
				if !ok || !b.IsConst() {
					panic(&abort{abNotEncodable, "errors.Is: Is method result not concrete"})
				}
				if b.V == 1 {
					return true
				}
			}
		}
		sel := ms.Lookup(nil, "Unwrap")
		if sel == nil {
			return false
		}
		sig, ok := sel.Type().(*types.Signature)
		if !ok || sig.Params().Len() != 0 || sig.Results().Len() != 1 {
			return false
		}
		r := in.callFn(fr, in.Prog.MethodValue(sel), []Value{err.V}, nil, nil)
		switch x := r.(type) {
		case IfaceV:
			if x.T == nil {
				return false
			}
			err = x
		case SliceV:
			for _, e := range x.E {
				ev, ok := e.(IfaceV)
				if !ok {
					panic(&abort{abNotEncodable, "errors.Is: Unwrap element could not be encoded"})
				}
				if ev.T != nil && in.errorsIs(fr, ev, target, depth+1) {
					return true
				}
			}
			return false
		default:
			panic(&abort{abNotEncodable, "errors.Is: Unwrap result could not be encoded"})
		}
	}
}

var _ = big.NewInt

// ---------- reflect.Value (IsNil idiom), bytes.Buffer, maps.Clone ----------

func containerStubs() {
	stubs["reflect.ValueOf"] = func(in *Interp, fr *frame, fn *ssa.Function, a []Value) Value {
		iv, ok := a[0].(IfaceV)
		if !ok {
			return in.notEncodable("reflect.ValueOf on %T", a[0])
		}
		return &NativeV{Kind: "reflect.Value", Type: iv.T, Data: iv.V}
	}
	rv := func(in *Interp, v Value) *NativeV {
		nv, ok := v.(*NativeV)
		if !ok || nv.Kind != "reflect.Value" {
			panic(&abort{abNotEncodable, "reflect.Value method on a value that did not come from reflect.ValueOf"})
		}
		return nv
	}
	stubs["(reflect.Value).IsValid"] = func(in *Interp, fr *frame, fn *ssa.Function, a []Value) Value {
		return in.P.Bool(rv(in, a[0]).Type != nil)
	}
	stubs["(reflect.Value).Kind"] = func(in *Interp, fr *frame, fn *ssa.Function, a []Value) Value {
		nv := rv(in, a[0])
		if nv.Type == nil {
			return in.P.Const(64, 0)
		}
		return in.P.Const(64, uint64(reflectKind(nv.Type)))
	}
	stubs["(reflect.Value).IsNil"] = func(in *Interp, fr *frame, fn *ssa.Function, a []Value) Value {
		nv := rv(in, a[0])
		if nv.Type == nil {
			in.goPanicf(fr, "reflect: call of reflect.Value.IsNil on zero Value")
		}
		switch reflectKind(nv.Type) {
		case 18, 19, 20, 21, 22, 23, 26: // chan func interface map pointer slice unsafe.Pointer
			return in.P.Bool(isNilValue(nv.Data))
		}
		in.goPanicf(fr, "reflect: call of reflect.Value.IsNil on %s Value", nv.Type)
		return nil
	}

	// bytes.Buffer: fields buf []byte (0), off int (1). Only the append/read-all subset; the
	// real implementation manages capacity by reslicing, which the slice model refuses.
	bufOf := func(in *Interp, fr *frame, recv Value) StructV {
		ptr, ok := recv.(PtrV)
		if !ok || ptr.Sym != nil {
			panic(&abort{abNotEncodable, "bytes.Buffer method on an unsupported receiver"})
		}
		if ptr.P == nil {
			in.goPanicf(fr, "runtime error: invalid memory address or nil pointer dereference (bytes.Buffer)")
		}
		st, ok := (*ptr.P).(StructV)
		if !ok || len(st) < 2 {
			panic(&abort{abNotEncodable, "bytes.Buffer has an unexpected layout"})
		}
		return st
	}
	bufAppend := func(in *Interp, st StructV, data []*Term) {
		old, _ := st[0].(SliceV)
		e := make([]Value, 0, len(old.E)+len(data))
		e = append(e, old.E...)
		for _, d := range data {
			e = append(e, d)
		}
		st[0] = SliceV{E: e}
	}
	bufOff := func(in *Interp, st StructV) int { return in.constInt(st[1], "bytes.Buffer offset") }
	stubs["(*bytes.Buffer).Write"] = func(in *Interp, fr *frame, fn *ssa.Function, a []Value) Value {
		st := bufOf(in, fr, a[0])
		data := in.sliceTerms(a[1], "bytes.Buffer.Write")
		bufAppend(in, st, data)
		return TupleV{in.P.Const(64, uint64(len(data))), IfaceV{}}
	}
	stubs["(*bytes.Buffer).WriteString"] = stubs["(*bytes.Buffer).Write"]
	stubs["(*bytes.Buffer).WriteByte"] = func(in *Interp, fr *frame, fn *ssa.Function, a []Value) Value {
		bufAppend(in, bufOf(in, fr, a[0]), []*Term{a[1].(*Term)})
		return IfaceV{}
	}
	stubs["(*bytes.Buffer).Bytes"] = func(in *Interp, fr *frame, fn *ssa.Function, a []Value) Value {
		st := bufOf(in, fr, a[0])
		b, _ := st[0].(SliceV)
		off := bufOff(in, st)
		if b.E == nil {
			return SliceV{}
		}
		return SliceV{E: b.E[off:len(b.E):len(b.E)]}
	}
	stubs["(*bytes.Buffer).Len"] = func(in *Interp, fr *frame, fn *ssa.Function, a []Value) Value {
		st := bufOf(in, fr, a[0])
		b, _ := st[0].(SliceV)
		return in.P.Const(64, uint64(len(b.E)-bufOff(in, st)))
	}
	stubs["(*bytes.Buffer).Reset"] = func(in *Interp, fr *frame, fn *ssa.Function, a []Value) Value {
		st := bufOf(in, fr, a[0])
		st[0] = SliceV{E: []Value{}}
		st[1] = in.P.Const(64, 0)
		return nil
	}
	stubs["(*bytes.Buffer).String"] = func(in *Interp, fr *frame, fn *ssa.Function, a []Value) Value {
		ptr, _ := a[0].(PtrV)
		if ptr.P == nil {
			return StrV{S: "<nil>"}
		}
		st := bufOf(in, fr, a[0])
		b, _ := st[0].(SliceV)
		return mkStr(in.sliceTerms(SliceV{E: b.E[bufOff(in, st):]}, "bytes.Buffer.String"))
	}
	stubs["maps.Clone"] = func(in *Interp, fr *frame, fn *ssa.Function, a []Value) Value {
		m, ok := a[0].(*MapV)
		if !ok {
			return in.notEncodable("maps.Clone on %T", a[0])
		}
		if m == nil {
			return (*MapV)(nil)
		}
		return m.clone()
	}
}
