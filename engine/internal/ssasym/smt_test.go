package ssasym

import (
	"os/exec"
	"testing"
)

// An `(error ...)` reply must be classified as unknown (never sat/unsat), and the next query
// must still get a correct answer (the desynchronised process is discarded and restarted).
func TestSolverErrorLineIsUnknown(t *testing.T) {
	if _, err := exec.LookPath("/usr/bin/z3"); err != nil {
		t.Skip("z3 not available")
	}
	p := NewPool()
	for _, oneShot := range []bool{false, true} {
		s := NewSolver("z3", 10000)
		bad := p.Var("x y", 8) // malformed symbol: the solver answers with (error ...) lines
		q := p.Eq(bad, p.Const(8, 1))
		var res SatResult
		if oneShot {
			res, _, _ = s.CheckOneShot(nil, q, nil, false)
		} else {
			res, _, _ = s.CheckInc(nil, q, nil, false)
		}
		if res != Unknown {
			t.Fatalf("oneShot=%v: error line classified as %v", oneShot, res)
		}
		if s.LastErr == "" {
			t.Fatalf("oneShot=%v: no error recorded", oneShot)
		}
		x := p.Var("x_ok", 8)
		sat := p.Eq(x, p.Const(8, 7))
		unsat := p.And(p.Eq(x, p.Const(8, 7)), p.Eq(x, p.Const(8, 8)))
		if oneShot {
			r1, m, _ := s.CheckOneShot(nil, sat, []*Term{x}, true)
			if r1 != Sat || m["x_ok"].Uint64() != 7 {
				t.Fatalf("after error: sat query gave %v %v", r1, m)
			}
			if r2, _, _ := s.CheckOneShot([]*Term{p.Eq(x, p.Const(8, 7))}, p.Eq(x, p.Const(8, 8)), nil, false); r2 != Unsat {
				t.Fatalf("after error: unsat query gave %v", r2)
			}
		} else {
			r1, m, _ := s.CheckInc(nil, sat, []*Term{x}, true)
			if r1 != Sat || m["x_ok"].Uint64() != 7 {
				t.Fatalf("after error: sat query gave %v %v", r1, m)
			}
			if r2, _, _ := s.CheckInc([]*Term{p.Eq(x, p.Const(8, 7))}, p.Eq(x, p.Const(8, 8)), nil, false); r2 != Unsat {
				t.Fatalf("after error: unsat query gave %v", r2)
			}
			// the incremental stack keeps working across pops
			if r3, _, _ := s.CheckInc(nil, sat, nil, false); r3 != Sat {
				t.Fatalf("after pop: %v", r3)
			}
		}
		_ = unsat
		s.Close()
	}
}

// A query that cannot finish within the timeout is unknown.
func TestSolverTimeoutIsUnknown(t *testing.T) {
	if _, err := exec.LookPath("/usr/bin/z3"); err != nil {
		t.Skip("z3 not available")
	}
	p := NewPool()
	s := NewSolver("z3", 300)
	defer s.Close()
	// factor a 64-bit semiprime with 32-bit-bounded factors > 1
	a, b := p.Var("fa", 64), p.Var("fb", 64)
	n := p.Const(64, 0xfffffffb*0xffffffef) // product of two 32-bit primes
	pc := []*Term{
		p.Ult(a, p.Const(64, 1<<32)), p.Ult(b, p.Const(64, 1<<32)),
		p.Ult(p.Const(64, 1), a), p.Ult(p.Const(64, 1), b),
		p.Ult(a, b),
	}
	res, _, _ := s.CheckOneShot(pc, p.Ne(p.Mul(a, b), n), nil, false)
	_ = res // sat quickly: sanity only
	res, _, _ = s.CheckOneShot(pc, p.Eq(p.Mul(a, b), p.Const(64, 0xfffffffb*0xffffffef+2)), nil, false)
	if res == Sat {
		// whichever way the solver goes, it must not claim something it cannot have decided in 300 ms
		// (this number has 32-bit factor pairs or not; we only require a well-formed answer)
	}
	if res != Sat && res != Unsat && res != Unknown {
		t.Fatalf("bad result %v", res)
	}
}
