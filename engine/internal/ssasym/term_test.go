package ssasym

import (
	"math/big"
	"math/rand"
	"testing"
)

// refVal is an independent reference evaluation: (value mod 2^w, w); w==0 is Bool.
type refVal struct {
	v *big.Int
	w int
}

func modw(v *big.Int, w int) *big.Int {
	m := new(big.Int).Lsh(big.NewInt(1), uint(w))
	r := new(big.Int).Mod(v, m)
	return r
}

func sgn(v *big.Int, w int) *big.Int {
	r := new(big.Int).Set(v)
	if r.Bit(w-1) == 1 {
		r.Sub(r, new(big.Int).Lsh(big.NewInt(1), uint(w)))
	}
	return r
}

func b2i(b bool) *big.Int {
	if b {
		return big.NewInt(1)
	}
	return big.NewInt(0)
}

type pair struct {
	t *Term
	r refVal
}

// genTerm builds a random term and its reference value in lock step.
func genTerm(p *Pool, rng *rand.Rand, vars []pair, depth int, w int) pair {
	pick := func(w int) pair {
		// leaf of width w
		var cands []pair
		for _, v := range vars {
			if v.t.W == w {
				cands = append(cands, v)
			}
		}
		if len(cands) > 0 && rng.Intn(4) != 0 {
			return cands[rng.Intn(len(cands))]
		}
		var c *big.Int
		switch rng.Intn(5) {
		case 0:
			c = big.NewInt(0)
		case 1:
			c = big.NewInt(1)
		case 2:
			c = new(big.Int).Sub(new(big.Int).Lsh(big.NewInt(1), uint(w)), big.NewInt(1))
		case 3:
			c = big.NewInt(int64(rng.Intn(w + 2)))
		default:
			c = new(big.Int).Rand(rng, new(big.Int).Lsh(big.NewInt(1), uint(w)))
		}
		c = modw(c, w)
		return pair{p.ConstBig(w, c), refVal{c, w}}
	}
	if w == 0 {
		if depth <= 0 {
			b := rng.Intn(2) == 1
			return pair{p.Bool(b), refVal{b2i(b), 0}}
		}
		ws := []int{8, 16, 64}
		ow := ws[rng.Intn(len(ws))]
		switch rng.Intn(9) {
		case 0:
			a, b := genTerm(p, rng, vars, depth-1, ow), genTerm(p, rng, vars, depth-1, ow)
			return pair{p.Eq(a.t, b.t), refVal{b2i(a.r.v.Cmp(b.r.v) == 0), 0}}
		case 1:
			a, b := genTerm(p, rng, vars, depth-1, ow), genTerm(p, rng, vars, depth-1, ow)
			return pair{p.Ult(a.t, b.t), refVal{b2i(a.r.v.Cmp(b.r.v) < 0), 0}}
		case 2:
			a, b := genTerm(p, rng, vars, depth-1, ow), genTerm(p, rng, vars, depth-1, ow)
			return pair{p.Ule(a.t, b.t), refVal{b2i(a.r.v.Cmp(b.r.v) <= 0), 0}}
		case 3:
			a, b := genTerm(p, rng, vars, depth-1, ow), genTerm(p, rng, vars, depth-1, ow)
			return pair{p.Slt(a.t, b.t), refVal{b2i(sgn(a.r.v, ow).Cmp(sgn(b.r.v, ow)) < 0), 0}}
		case 4:
			a, b := genTerm(p, rng, vars, depth-1, ow), genTerm(p, rng, vars, depth-1, ow)
			return pair{p.Sle(a.t, b.t), refVal{b2i(sgn(a.r.v, ow).Cmp(sgn(b.r.v, ow)) <= 0), 0}}
		case 5:
			a := genTerm(p, rng, vars, depth-1, 0)
			return pair{p.Not(a.t), refVal{b2i(a.r.v.Sign() == 0), 0}}
		case 6:
			a, b := genTerm(p, rng, vars, depth-1, 0), genTerm(p, rng, vars, depth-1, 0)
			return pair{p.And(a.t, b.t), refVal{b2i(a.r.v.Sign() != 0 && b.r.v.Sign() != 0), 0}}
		case 7:
			a, b := genTerm(p, rng, vars, depth-1, 0), genTerm(p, rng, vars, depth-1, 0)
			return pair{p.Or(a.t, b.t), refVal{b2i(a.r.v.Sign() != 0 || b.r.v.Sign() != 0), 0}}
		default:
			a, b := genTerm(p, rng, vars, depth-1, 0), genTerm(p, rng, vars, depth-1, 0)
			return pair{p.Eq(a.t, b.t), refVal{b2i(a.r.v.Cmp(b.r.v) == 0), 0}}
		}
	}
	if depth <= 0 {
		return pick(w)
	}
	two := new(big.Int).Lsh(big.NewInt(1), uint(w))
	bin := func() (pair, pair) {
		return genTerm(p, rng, vars, depth-1, w), genTerm(p, rng, vars, depth-1, w)
	}
	shiftAmt := func() pair {
		if rng.Intn(3) != 0 {
			c := big.NewInt(int64(rng.Intn(w + 3)))
			return pair{p.ConstBig(w, c), refVal{modw(c, w), w}}
		}
		return genTerm(p, rng, vars, depth-1, w)
	}
	switch rng.Intn(22) {
	case 0:
		a, b := bin()
		return pair{p.Add(a.t, b.t), refVal{modw(new(big.Int).Add(a.r.v, b.r.v), w), w}}
	case 1:
		a, b := bin()
		return pair{p.Sub(a.t, b.t), refVal{modw(new(big.Int).Sub(a.r.v, b.r.v), w), w}}
	case 2:
		a, b := bin()
		return pair{p.Mul(a.t, b.t), refVal{modw(new(big.Int).Mul(a.r.v, b.r.v), w), w}}
	case 3:
		a, b := bin()
		return pair{p.And(a.t, b.t), refVal{new(big.Int).And(a.r.v, b.r.v), w}}
	case 4:
		a, b := bin()
		return pair{p.Or(a.t, b.t), refVal{new(big.Int).Or(a.r.v, b.r.v), w}}
	case 5:
		a, b := bin()
		return pair{p.Xor(a.t, b.t), refVal{new(big.Int).Xor(a.r.v, b.r.v), w}}
	case 6:
		a := genTerm(p, rng, vars, depth-1, w)
		return pair{p.Not(a.t), refVal{new(big.Int).Xor(a.r.v, new(big.Int).Sub(two, big.NewInt(1))), w}}
	case 7:
		a := genTerm(p, rng, vars, depth-1, w)
		return pair{p.Neg(a.t), refVal{modw(new(big.Int).Neg(a.r.v), w), w}}
	case 8:
		a, s := genTerm(p, rng, vars, depth-1, w), shiftAmt()
		r := big.NewInt(0)
		if s.r.v.Cmp(big.NewInt(int64(w))) < 0 {
			r = modw(new(big.Int).Lsh(a.r.v, uint(s.r.v.Uint64())), w)
		}
		return pair{p.Shl(a.t, s.t), refVal{r, w}}
	case 9:
		a, s := genTerm(p, rng, vars, depth-1, w), shiftAmt()
		r := big.NewInt(0)
		if s.r.v.Cmp(big.NewInt(int64(w))) < 0 {
			r = new(big.Int).Rsh(a.r.v, uint(s.r.v.Uint64()))
		}
		return pair{p.LShr(a.t, s.t), refVal{r, w}}
	case 10:
		a, s := genTerm(p, rng, vars, depth-1, w), shiftAmt()
		n := uint(w)
		if s.r.v.Cmp(big.NewInt(int64(w))) < 0 {
			n = uint(s.r.v.Uint64())
		}
		return pair{p.AShr(a.t, s.t), refVal{modw(new(big.Int).Rsh(sgn(a.r.v, w), n), w), w}}
	case 11:
		// extract from a wider term, then (zero/sign) extend back
		src := genTerm(p, rng, vars, depth-1, w)
		lo := rng.Intn(w)
		hi := lo + rng.Intn(w-lo)
		ew := hi - lo + 1
		ev := modw(new(big.Int).Rsh(src.r.v, uint(lo)), ew)
		e := p.Extract(src.t, hi, lo)
		if rng.Intn(2) == 0 {
			return pair{p.ZExt(e, w), refVal{ev, w}}
		}
		return pair{p.SExt(e, w), refVal{modw(sgn(ev, ew), w), w}}
	case 12:
		// concat of two halves taken from different terms
		if w < 2 {
			return pick(w)
		}
		k := 1 + rng.Intn(w-1)
		a, b := bin()
		hi := p.Extract(a.t, w-1, w-k) // k bits
		lo := p.Extract(b.t, w-k-1, 0) // w-k bits
		hv := new(big.Int).Rsh(a.r.v, uint(w-k))
		lv := modw(b.r.v, w-k)
		return pair{p.Concat(hi, lo), refVal{new(big.Int).Or(new(big.Int).Lsh(hv, uint(w-k)), lv), w}}
	case 13:
		c := genTerm(p, rng, vars, depth-1, 0)
		a, b := bin()
		if c.r.v.Sign() != 0 {
			return pair{p.Ite(c.t, a.t, b.t), a.r}
		}
		return pair{p.Ite(c.t, a.t, b.t), b.r}
	case 14:
		a, b := bin()
		var r *big.Int
		if b.r.v.Sign() == 0 {
			r = new(big.Int).Sub(two, big.NewInt(1))
		} else {
			r = new(big.Int).Quo(a.r.v, b.r.v)
		}
		return pair{p.UDiv(a.t, b.t), refVal{r, w}}
	case 15:
		a, b := bin()
		var r *big.Int
		if b.r.v.Sign() == 0 {
			r = a.r.v
		} else {
			r = new(big.Int).Rem(a.r.v, b.r.v)
		}
		return pair{p.URem(a.t, b.t), refVal{r, w}}
	case 16:
		a, b := bin()
		var r *big.Int
		if b.r.v.Sign() == 0 {
			if sgn(a.r.v, w).Sign() < 0 {
				r = big.NewInt(1)
			} else {
				r = new(big.Int).Sub(two, big.NewInt(1))
			}
		} else {
			r = modw(new(big.Int).Quo(sgn(a.r.v, w), sgn(b.r.v, w)), w)
		}
		return pair{p.SDiv(a.t, b.t), refVal{r, w}}
	case 17:
		a, b := bin()
		var r *big.Int
		if b.r.v.Sign() == 0 {
			r = a.r.v
		} else {
			r = modw(new(big.Int).Rem(sgn(a.r.v, w), sgn(b.r.v, w)), w)
		}
		return pair{p.SRem(a.t, b.t), refVal{r, w}}
	case 18:
		// mask idiom: (a & m) | (b & ^m)
		a, b := bin()
		m := new(big.Int).Rand(rng, two)
		nm := new(big.Int).Xor(m, new(big.Int).Sub(two, big.NewInt(1)))
		t := p.Or(p.And(a.t, p.ConstBig(w, m)), p.And(b.t, p.ConstBig(w, nm)))
		r := new(big.Int).Or(new(big.Int).And(a.r.v, m), new(big.Int).And(b.r.v, nm))
		return pair{t, refVal{r, w}}
	case 19:
		c := genTerm(p, rng, vars, depth-1, 0)
		return pair{p.BoolToBV(c.t, w), refVal{b2i(c.r.v.Sign() != 0), w}}
	case 20:
		// rotate by a constant through shifts
		a := genTerm(p, rng, vars, depth-1, w)
		k := rng.Intn(w)
		t := p.Or(p.Shl(a.t, p.Const(w, uint64(k))), p.LShr(a.t, p.Const(w, uint64(w-k))))
		r := modw(new(big.Int).Lsh(a.r.v, uint(k)), w)
		if k != 0 {
			r.Or(r, new(big.Int).Rsh(a.r.v, uint(w-k)))
		} else {
			// x>>w is 0
		}
		return pair{t, refVal{r, w}}
	default:
		return pick(w)
	}
}

func testTermSemantics(t *testing.T, wireNF bool) {
	old := WireNormalForm
	WireNormalForm = wireNF
	defer func() { WireNormalForm = old }()
	rng := rand.New(rand.NewSource(12345))
	for iter := 0; iter < 6000; iter++ {
		p := NewPool()
		env := map[string]*big.Int{}
		var vars []pair
		for i, w := range []int{8, 8, 16, 64, 64, 64} {
			name := "v" + string(rune('a'+i))
			val := new(big.Int).Rand(rng, new(big.Int).Lsh(big.NewInt(1), uint(w)))
			if rng.Intn(4) == 0 {
				val = big.NewInt(int64(rng.Intn(3)))
			}
			env[name] = val
			vars = append(vars, pair{p.Var(name, w), refVal{val, w}})
		}
		ws := []int{0, 8, 16, 64}
		w := ws[rng.Intn(len(ws))]
		g := genTerm(p, rng, vars, 1+rng.Intn(5), w)
		got := p.Eval(g.t, env)
		if got.Cmp(g.r.v) != 0 {
			t.Fatalf("iter %d (wireNF=%v): term evaluates to %s, reference says %s (width %d, term op %d id %d)",
				iter, wireNF, got.Text(16), g.r.v.Text(16), w, g.t.Op, g.t.ID)
		}
		if g.t.W != w {
			t.Fatalf("iter %d: width %d, want %d", iter, g.t.W, w)
		}
	}
}

func TestTermSemanticsWireNF(t *testing.T) { testTermSemantics(t, true) }
func TestTermSemanticsPlain(t *testing.T)  { testTermSemantics(t, false) }

// TestWireCanonical: two different shuffle networks for the same permutation give the same term.
func TestWireCanonical(t *testing.T) {
	p := NewPool()
	x := p.Var("x", 64)
	// byte swap of the low 16 bits, two ways
	a := p.Or(p.Shl(p.And(x, p.Const(64, 0xff)), p.Const(64, 8)), p.And(p.LShr(x, p.Const(64, 8)), p.Const(64, 0xff)))
	b := p.ZExt(p.Concat(p.Extract(x, 7, 0), p.Extract(x, 15, 8)), 64)
	if a != b {
		t.Fatalf("byte swap forms differ: %d vs %d", a.ID, b.ID)
	}
	if p.Eq(a, b) != p.True {
		t.Fatal("Eq did not fold")
	}
}
