package ssasym

import (
	"bytes"
	"encoding/json"
	"fmt"
	"io"
	"math/rand"
	"os"
	"sort"
	"time"

	"golang.org/x/tools/go/ssa"
)

// FuncInfo is an entry of functions_encoded.
type FuncInfo struct {
	Name   string `json:"name"`
	Instrs int    `json:"instrs"`
}

// Result is result.json.
type Result struct {
	Obligations       []*Obligation     `json:"obligations"`
	FunctionsEncoded  []FuncInfo        `json:"functions_encoded"`
	StubsUsed         []string          `json:"stubs_used"`
	WallS             float64           `json:"wall_s"`
	LoadS             float64           `json:"load_s"`
	ReplayBuildS      float64           `json:"replay_build_s"`
	Solver            string            `json:"solver"`
	Package           string            `json:"package"`
	Harnesses         []HarnessInfo     `json:"harnesses"`
	ReplacementsUsed  []string          `json:"replacements_used"`
	Replacements      []ReplacementInfo `json:"replacements_declared,omitempty"`
	GoroutinesIgnored []string          `json:"goroutines_ignored,omitempty"`
	EngineErrors      []string          `json:"engine_errors,omitempty"`
	ExitCode          int               `json:"exit_code"`
}

// HarnessInfo summarises the exploration of one harness function.
type HarnessInfo struct {
	Name         string   `json:"name"`
	Paths        int      `json:"paths"`
	Dropped      int      `json:"dropped_paths"`
	Sat          int      `json:"sat"`
	Unsat        int      `json:"unsat"`
	Unknown      int      `json:"unknown"`
	SolverS      float64  `json:"solver_s"`
	WallS        float64  `json:"wall_s"`
	Terms        int      `json:"terms"`
	Replacements []string `json:"replacements_used,omitempty"`
}

// Engine ties a loaded program to solvers and options.
type Engine struct {
	L   *Loaded
	Cfg *Config
	P   *Pool
	In  *Interp
	inc *Solver
	one *Solver
	Out io.Writer
	rep *Replayer

	replLoaded bool
}

func NewEngine(L *Loaded, cfg *Config, out io.Writer) *Engine {
	if cfg.MaxPaths <= 0 {
		cfg.MaxPaths = 20000
	}
	if cfg.MaxSteps <= 0 {
		cfg.MaxSteps = 200_000_000
	}
	if cfg.MaxEvents <= 0 {
		cfg.MaxEvents = 4096
	}
	if cfg.Solver == "" {
		cfg.Solver = "z3"
	}
	P := NewPool()
	e := &Engine{L: L, Cfg: cfg, P: P, Out: out}
	e.In = &Interp{P: P, Prog: L.Prog, maxSteps: cfg.MaxSteps, Entered: map[*ssa.Function]bool{}, StubHit: map[string]bool{},
		HarnessPkg: L.Pkg, GoIgnored: map[string]bool{}, ReplUsed: map[string]bool{}, replActive: map[*ssa.Function]int{}}
	e.inc = NewSolver(cfg.Solver, cfg.TimeoutMS)
	e.one = NewSolver(cfg.Solver, cfg.TimeoutMS)
	if cfg.SMTLog != "" {
		if w, err := openLog(cfg.SMTLog + ".inc.smt2"); err == nil {
			e.inc.LogW = w
		}
		if w, err := openLog(cfg.SMTLog + ".oneshot.smt2"); err == nil {
			e.one.LogW = w
		}
	}
	return e
}

func (e *Engine) Close() {
	e.inc.Close()
	e.one.Close()
}

func (e *Engine) logf(format string, a ...interface{}) {
	fmt.Fprintf(e.Out, format+"\n", a...)
}

func (e *Engine) replayer() (*Replayer, error) {
	if e.rep == nil {
		r, err := NewReplayer(e.L, e.Cfg.ReplayDir)
		if err != nil {
			return nil, err
		}
		e.rep = r
	}
	return e.rep, nil
}

func (e *Engine) newExplorer(name string, concrete bool, seed int64) *Explorer {
	ex := &Explorer{P: e.P, In: e.In, Cfg: e.Cfg, inc: e.inc, one: e.one, harness: name,
		obl: map[string]*Obligation{}, concrete: concrete, log: e.logf}
	if concrete {
		ex.rng = rand.New(rand.NewSource(seed))
	}
	e.In.Ex = ex
	return ex
}

func (e *Engine) harnessFn(name string) (*ssa.Function, error) {
	fn := e.L.Pkg.Func(name)
	if fn == nil {
		return nil, fmt.Errorf("harness function %s not found in %s", name, e.L.PkgPath)
	}
	if fn.Blocks == nil || len(fn.Params) != 0 || fn.Signature.Results().Len() != 0 {
		return nil, fmt.Errorf("harness function %s must be a niladic function with a body", name)
	}
	return fn, nil
}

// Run explores the named harnesses symbolically, replays counterexamples natively and builds
// the result.
func (e *Engine) Run(funcs []string) *Result {
	t0 := time.Now()
	res := &Result{Solver: e.Cfg.Solver, Package: e.L.PkgPath}
	if err := e.loadReplacements(); err != nil {
		res.EngineErrors = append(res.EngineErrors, "replacement table: "+err.Error())
		res.Obligations = []*Obligation{}
		res.ReplacementsUsed = []string{}
		res.ExitCode = 2
		return res
	}
	var explorers []*Explorer
	for _, name := range funcs {
		fn, err := e.harnessFn(name)
		if err != nil {
			res.EngineErrors = append(res.EngineErrors, err.Error())
			continue
		}
		ex := e.newExplorer(name, false, 0)
		th := time.Now()
		func() {
			defer func() {
				if r := recover(); r != nil {
					res.EngineErrors = append(res.EngineErrors, fmt.Sprintf("harness %s: internal error: %v", name, r))
					ex.neFlag = fmt.Sprintf("ENGINE-ERROR: %v", r)
				}
			}()
			ex.Explore(fn, scanIDs(e.L.Prog, fn))
		}()
		hi := HarnessInfo{Name: name, Paths: ex.paths, Dropped: ex.dropped, Sat: ex.total.Sat, Unsat: ex.total.Unsat,
			Unknown: ex.total.Unknown, SolverS: ex.total.Seconds, WallS: time.Since(th).Seconds(), Terms: e.P.Size(),
			Replacements: sortedKeys(ex.replAll)}
		res.Harnesses = append(res.Harnesses, hi)
		e.logf("harness %-40s paths=%d dropped=%d queries sat/unsat/unknown=%d/%d/%d solver=%.2fs wall=%.2fs",
			name, hi.Paths, hi.Dropped, hi.Sat, hi.Unsat, hi.Unknown, hi.SolverS, hi.WallS)
		explorers = append(explorers, ex)
	}
	// native confirmation of counterexamples
	for _, ex := range explorers {
		obls := ex.finish(func(o *Obligation) (bool, string, string) {
			if e.Cfg.NoReplay {
				return false, "", ""
			}
			rp, err := e.replayer()
			if err != nil {
				return false, "", "replay setup failed: " + err.Error()
			}
			ok, path, note := rp.Confirm(o)
			return ok, path, note
		})
		res.Obligations = append(res.Obligations, obls...)
	}
	if e.rep != nil {
		res.ReplayBuildS = e.rep.BuildS
	}
	for fn := range e.In.Entered {
		n := 0
		for _, b := range fn.Blocks {
			n += len(b.Instrs)
		}
		res.FunctionsEncoded = append(res.FunctionsEncoded, FuncInfo{Name: fn.String(), Instrs: n})
	}
	sort.Slice(res.FunctionsEncoded, func(i, j int) bool { return res.FunctionsEncoded[i].Name < res.FunctionsEncoded[j].Name })
	res.StubsUsed = sortedKeys(e.In.StubHit)
	res.ReplacementsUsed = sortedKeys(e.In.ReplUsed)
	if res.ReplacementsUsed == nil {
		res.ReplacementsUsed = []string{}
	}
	res.Replacements = e.replacementInfo()
	res.GoroutinesIgnored = sortedKeys(e.In.GoIgnored)
	if res.Obligations == nil {
		res.Obligations = []*Obligation{}
	}
	res.WallS = time.Since(t0).Seconds()
	res.ExitCode = exitCode(res)
	return res
}

func exitCode(res *Result) int {
	violated, mismatch, weak := false, len(res.EngineErrors) > 0, false
	for _, o := range res.Obligations {
		switch {
		case o.mismatch:
			mismatch = true
		case o.Status == "violated":
			violated = true
		case o.Status != "valid":
			weak = true
		}
	}
	switch {
	case mismatch:
		return 2
	case violated:
		return 1
	case weak || len(res.Obligations) == 0:
		return 3
	}
	return 0
}

// WriteResult stores result.json.
func WriteResult(path string, res *Result) error {
	var buf bytes.Buffer
	enc := json.NewEncoder(&buf)
	enc.SetEscapeHTML(false) // "=>" in replacements_used stays readable
	enc.SetIndent("", "  ")
	if err := enc.Encode(res); err != nil {
		return err
	}
	return os.WriteFile(path, buf.Bytes(), 0o644)
}

// Print writes the human-readable summary.
func (e *Engine) Print(res *Result) {
	for _, o := range res.Obligations {
		line := fmt.Sprintf("%-13s %s/%s  paths=%d q=%d/%d/%d %.2fs", o.Status, o.Harness, o.ID, o.Paths,
			o.Queries["sat"], o.Queries["unsat"], o.Queries["unknown"], o.SolverS)
		if o.Reason != "" {
			line += "  -- " + o.Reason
		}
		e.logf("%s", line)
		if o.Status == "violated" && o.Replay != nil {
			e.logf("VIOLATION property=%s/%s replay=%s", o.Harness, o.ID, *o.Replay)
		}
		if o.mismatch {
			e.logf("ENGINE-MISMATCH obligation=%s/%s", o.Harness, o.ID)
		}
	}
	for _, er := range res.EngineErrors {
		e.logf("ENGINE-ERROR %s", er)
	}
	for _, r := range res.ReplacementsUsed {
		e.logf("CONTRACT %s", r)
	}
	for _, r := range res.Replacements {
		if !r.Used {
			e.logf("note: replacement %q (%s) was declared but never used", r.Key, r.Replacement)
		}
	}
	for _, g := range res.GoroutinesIgnored {
		e.logf("GOROUTINE-IGNORED %s", g)
	}
	e.logf("functions encoded: %d, stubs used: %d, contracts used: %d, wall %.2fs (replay build %.2fs), exit %d",
		len(res.FunctionsEncoded), len(res.StubsUsed), len(res.ReplacementsUsed), res.WallS, res.ReplayBuildS, res.ExitCode)
}

// ---------- differential self-test ----------

// SelfTestReport summarises -selftest.
type SelfTestReport struct {
	Harness      string   `json:"harness"`
	Runs         int      `json:"runs"`
	OK           int      `json:"ok"`
	AssumeDrops  int      `json:"assume_drops"`
	Panics       int      `json:"panics"`
	NotEncodable int      `json:"not_encodable"`
	Asserts      int      `json:"assert_events"`
	Mismatches   []string `json:"mismatches"`
}

// SelfTest runs each harness on n seeded random assignments through the interpreter in concrete
// mode and through the natively compiled harness, and compares the traces.
func (e *Engine) SelfTest(funcs []string, n int, seed int64) ([]SelfTestReport, error) {
	rp, err := e.replayer()
	if err != nil {
		return nil, err
	}
	// harness contracts are NOT applied in concrete mode: the native side runs the real functions,
	// so the comparison is only meaningful against the real functions (a harness whose target is
	// not interpretable without its contracts shows up as not-encodable runs)
	var reports []SelfTestReport
	for hi, name := range funcs {
		fn, err := e.harnessFn(name)
		if err != nil {
			return nil, err
		}
		rep := SelfTestReport{Harness: name, Runs: n, Mismatches: []string{}}
		var assigns []*Assignment
		type mine struct {
			end   string
			trace []TraceEvent
		}
		var my []mine
		for i := 0; i < n; i++ {
			ex := e.newExplorer(name, true, seed*1000003+int64(hi)*7919+int64(i))
			end := ex.runPath(fn)
			a, _ := ex.assignment(nil)
			assigns = append(assigns, a)
			my = append(my, mine{end, ex.trace})
		}
		path, err := rp.WriteAssignments("selftest_"+name, assigns)
		if err != nil {
			return nil, err
		}
		runs, out, err := rp.Run(path)
		if err != nil {
			return nil, fmt.Errorf("%v\n%s", err, out)
		}
		if len(runs) != n {
			return nil, fmt.Errorf("native self-test returned %d runs, want %d", len(runs), n)
		}
		for i := range runs {
			m, nat := my[i], runs[i]
			var want string
			switch {
			case m.end == "ok":
				want = "ok"
				rep.OK++
			case m.end == "drop":
				want = "assume"
				rep.AssumeDrops++
			case len(m.end) >= 6 && m.end[:6] == "panic:":
				want = "panic"
				rep.Panics++
			default:
				rep.NotEncodable++
				continue
			}
			bad := ""
			if nat.Desync != "" {
				bad = "desync: " + nat.Desync
			} else if nat.End != want {
				bad = fmt.Sprintf("end: interpreter %q native %q (%s)", m.end, nat.End, nat.Panic)
			} else if len(nat.Events) != len(m.trace) {
				bad = fmt.Sprintf("trace length: interpreter %d native %d", len(m.trace), len(nat.Events))
			} else {
				for j := range m.trace {
					if m.trace[j] != nat.Events[j] {
						bad = fmt.Sprintf("event %d: interpreter %+v native %+v", j, m.trace[j], nat.Events[j])
						break
					}
					if m.trace[j].K == "assert" {
						rep.Asserts++
					}
				}
			}
			if bad != "" {
				rep.Mismatches = append(rep.Mismatches, fmt.Sprintf("run %d: %s", i, bad))
			}
		}
		e.logf("selftest %-40s runs=%d ok=%d assume-drops=%d panics=%d not-encodable=%d assert-events=%d mismatches=%d",
			name, rep.Runs, rep.OK, rep.AssumeDrops, rep.Panics, rep.NotEncodable, rep.Asserts, len(rep.Mismatches))
		for _, m := range rep.Mismatches {
			e.logf("ENGINE-MISMATCH selftest %s %s", name, m)
		}
		reports = append(reports, rep)
	}
	return reports, nil
}
