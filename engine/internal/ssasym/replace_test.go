package ssasym

import "testing"

func TestStripBrackets(t *testing.T) {
	cases := map[string]string{
		"a/b.F[x/y.T]":                     "a/b.F",
		"(*a/b.G[*p.Fp, p.C, [32]byte]).M": "(*a/b.G).M",
		"a/b.F":                            "a/b.F",
		"(*a/b.G[T[U]]).M$1":               "(*a/b.G).M$1",
	}
	for in, want := range cases {
		if got := stripBrackets(in); got != want {
			t.Errorf("stripBrackets(%q) = %q, want %q", in, got, want)
		}
	}
}

func TestReplKeyForms(t *testing.T) {
	type c struct {
		key           string
		loose, prefix bool
		norm          string
	}
	for _, x := range []c{
		{"a/b.F[...]", true, false, "a/b.F"},
		{"(*a/b.G).M", true, false, "(*a/b.G).M"},
		{"a/b.F[x/y.T]", false, false, "a/b.F[x/y.T]"},
		{"a/b.Unm*", true, true, "a/b.Unm"},
		{"(*a/b.G[T]).*", false, true, "(*a/b.G[T])."},
	} {
		e := newReplEntry(x.key, nil, "t")
		if e.loose != x.loose || e.prefix != x.prefix || e.norm != x.norm {
			t.Errorf("%q: got loose=%v prefix=%v norm=%q", x.key, e.loose, e.prefix, e.norm)
		}
	}
}
