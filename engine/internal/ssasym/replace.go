package ssasym

import (
	"fmt"
	"go/types"
	"math/rand"
	"sort"
	"strings"

	"golang.org/x/tools/go/ssa"
)

// Harness-supplied contracts ("replacements"), README "Contracts".
//
// A harness file may define any number of niladic functions whose name starts with
// `verifReplacements` and whose result is `map[string]any`:
//
//	func verifReplacements() map[string]any {
//		return map[string]any{
//			"github.com/bronlabs/bron-crypto/pkg/base/serde.UnmarshalCBOR[...]": myUnmarshal,
//			"(*github.com/bronlabs/bron-crypto/pkg/base/curves/k256/impl.Fp).SetBytes": fpSetBytesContract,
//		}
//	}
//
// (A function, not a package-level variable: reading a variable would run the target package's
// initialiser; the function is interpreted once, concretely, before the harnesses run. Natively it
// is dead code: the native twin always calls the REAL functions.)
//
// Key syntax, matched against ssa.Function.String() of the callee of every call (static call,
// interface dispatch, closure, defer):
//
//	exact        the key equals String() of the function (instantiations carry their type
//	             arguments in brackets) or String() of its generic origin;
//	no brackets  a key without '[' (after deleting any literal "[...]") is compared with String()
//	             with every bracketed type-argument list deleted, so
//	             "(*…/points.ShortWeierstrassPointImpl).SetAffine" and "…/serde.UnmarshalCBOR[...]"
//	             address every instantiation;
//	prefix       a key ending in '*' is a prefix of either form.
//
// The value must be a function whose parameters are the target's parameters (receiver first) and
// whose results are the target's results, with identical types; otherwise the call is
// not-encodable. While a replacement for F runs, calls to F reach the real F (a contract may wrap
// the real function to spy on its arguments). Values drawn from intrinsics inside a replacement
// are "ghost" inputs: they are solver variables like any other but are not part of the
// assignment that the native twin replays (it would never ask for them).
type replEntry struct {
	key    string
	norm   string // key without "[...]" and without the trailing '*'
	prefix bool
	loose  bool // compare against the bracket-free form
	fn     *ClosureV
	mode   string // "" = contract; replModeReal / replModeGoInline = directive (fn is nil), see below
	decl   string // the declaring verifReplacements function
	used   bool
}

// Directives: a value of the replacements map may be one of these two strings instead of a
// function. They do not replace anything; they switch on an interpretation mode for the functions
// the key matches (opt-in, per harness directory, reported like contracts).
//
//	replModeReal      the engine stub of the function (stubs.go, bigmodel.go) is bypassed and the
//	                  function's own SSA body is interpreted (used by harness/e1/paillier, which
//	                  runs the REAL pkg/base/nt/num on top of a saferith model instead of the
//	                  abstract big-integer model);
//	replModeGoInline  a `go` statement whose callee matches is executed synchronously at the spawn
//	                  point (run to completion) instead of being ignored: one admissible schedule of
//	                  a fork-join section (`wg.Add; go ...; go ...; wg.Wait`) whose goroutines do not
//	                  communicate; data races are not looked for.
const (
	replModeReal     = "verif:real-body"
	replModeGoInline = "verif:go-inline"
)

// directive returns the directive entry of fn for the given mode, if any.
func (in *Interp) directive(fn *ssa.Function, mode string) *replEntry {
	if in.Repl == nil || fn == nil {
		return nil
	}
	if e := in.Repl.lookup(fn); e != nil && e.mode == mode {
		return e
	}
	return nil
}

// noteDirective records the use of a directive among the replacements (they are part of the claim).
func (in *Interp) noteDirective(e *replEntry, fn *ssa.Function) {
	e.used = true
	tag := fn.String() + " => [" + e.mode + "]"
	in.ReplUsed[tag] = true
	if in.Ex != nil && in.Ex.replOnPath != nil {
		in.Ex.replOnPath[tag] = true
	}
}

type replTable struct {
	entries []*replEntry
	cache   map[*ssa.Function]*replEntry
}

func stripBrackets(s string) string {
	var sb strings.Builder
	depth := 0
	for i := 0; i < len(s); i++ {
		switch s[i] {
		case '[':
			depth++
		case ']':
			if depth > 0 {
				depth--
			}
		default:
			if depth == 0 {
				sb.WriteByte(s[i])
			}
		}
	}
	return sb.String()
}

func newReplEntry(key string, fn *ClosureV, decl string) *replEntry {
	e := &replEntry{key: key, fn: fn, decl: decl}
	k := key
	if strings.HasSuffix(k, "*") {
		e.prefix = true
		k = strings.TrimSuffix(k, "*")
	}
	k2 := strings.ReplaceAll(k, "[...]", "")
	if !strings.Contains(k2, "[") {
		e.loose = true
		k = k2
	}
	e.norm = k
	return e
}

func (e *replEntry) matches(fn *ssa.Function) bool {
	full := fn.String()
	cands := []string{full}
	if o := fn.Origin(); o != nil {
		cands = append(cands, o.String())
	}
	if e.loose {
		cands = []string{stripBrackets(full)}
	}
	for _, c := range cands {
		if e.prefix {
			if strings.HasPrefix(c, e.norm) {
				return true
			}
		} else if c == e.norm {
			return true
		}
	}
	return false
}

func (t *replTable) lookup(fn *ssa.Function) *replEntry {
	if t == nil {
		return nil
	}
	if e, ok := t.cache[fn]; ok {
		return e
	}
	var hit *replEntry
	for _, e := range t.entries {
		if e.matches(fn) {
			// the most specific (longest) key wins
			if hit == nil || len(e.norm) > len(hit.norm) {
				hit = e
			}
		}
	}
	t.cache[fn] = hit
	return hit
}

// sigMismatch explains why repl cannot stand in for fn ("" if it can).
func sigMismatch(fn, repl *ssa.Function) string {
	if len(fn.Params) != len(repl.Params) {
		return fmt.Sprintf("%d parameters (receiver included) vs %d", len(fn.Params), len(repl.Params))
	}
	for i := range fn.Params {
		if !types.Identical(fn.Params[i].Type(), repl.Params[i].Type()) {
			return fmt.Sprintf("parameter %d is %s, replacement has %s", i, fn.Params[i].Type(), repl.Params[i].Type())
		}
	}
	a, b := fn.Signature.Results(), repl.Signature.Results()
	if a.Len() != b.Len() {
		return fmt.Sprintf("%d results vs %d", a.Len(), b.Len())
	}
	for i := 0; i < a.Len(); i++ {
		if !types.Identical(a.At(i).Type(), b.At(i).Type()) {
			return fmt.Sprintf("result %d is %s, replacement has %s", i, a.At(i).Type(), b.At(i).Type())
		}
	}
	if fn.Signature.Variadic() != repl.Signature.Variadic() {
		return "variadic vs non-variadic"
	}
	return ""
}

// tryReplace runs the harness contract for fn if one is declared and applicable.
func (in *Interp) tryReplace(fr *frame, fn *ssa.Function, args []Value) (Value, bool) {
	if in.Repl == nil || in.Ex == nil || in.Ex.concrete || in.replActive[fn] > 0 {
		return nil, false
	}
	e := in.Repl.lookup(fn)
	if e == nil || e.mode != "" {
		return nil, false
	}
	if e.fn.Fn == fn {
		return nil, false
	}
	if why := sigMismatch(fn, e.fn.Fn); why != "" {
		return in.notEncodable("replacement %s declared for %q cannot stand in for %s: %s", e.fn.Fn, e.key, fn, why), true
	}
	e.used = true
	tag := fn.String() + " => " + e.fn.Fn.String()
	in.ReplUsed[tag] = true
	in.Ex.replOnPath[tag] = true
	in.replActive[fn]++
	in.replDepth++
	defer func() {
		in.replActive[fn]--
		in.replDepth--
	}()
	return in.callSSA(fr, e.fn.Fn, args, e.fn.Env), true
}

// loadReplacements interprets the verifReplacements* functions of the harness package.
func (e *Engine) loadReplacements() error {
	if e.replLoaded {
		return nil
	}
	e.replLoaded = true
	var decls []*ssa.Function
	for name, m := range e.L.Pkg.Members {
		f, ok := m.(*ssa.Function)
		if !ok || !strings.HasPrefix(name, "verifReplacements") || f.Blocks == nil {
			continue
		}
		if len(f.Params) != 0 || f.Signature.Results().Len() != 1 {
			return fmt.Errorf("%s must be niladic and return map[string]any", name)
		}
		if _, ok := f.Signature.Results().At(0).Type().Underlying().(*types.Map); !ok {
			return fmt.Errorf("%s must return map[string]any", name)
		}
		decls = append(decls, f)
	}
	if len(decls) == 0 {
		return nil
	}
	sort.Slice(decls, func(i, j int) bool { return decls[i].Name() < decls[j].Name() })
	tab := &replTable{cache: map[*ssa.Function]*replEntry{}}
	for _, f := range decls {
		ex := e.newExplorer(f.Name(), true, 0)
		ex.rng = rand.New(rand.NewSource(1))
		ex.resetPath()
		e.In.resetPath()
		var res Value
		var failure string
		func() {
			defer func() {
				if r := recover(); r != nil {
					switch x := r.(type) {
					case *abort:
						failure = x.reason
					case *goPanic:
						failure = "panic: " + x.msg
					default:
						panic(r)
					}
				}
			}()
			res = e.In.callSSA(nil, f, nil, nil)
		}()
		if failure != "" {
			return fmt.Errorf("%s could not be evaluated: %s", f.Name(), failure)
		}
		m, ok := res.(*MapV)
		if !ok {
			return fmt.Errorf("%s did not return a map (%T)", f.Name(), res)
		}
		if m == nil {
			continue
		}
		for _, ent := range m.live() {
			ks, ok := ent.k.(StrV)
			if !ok || ks.Sym != nil || ks.Opaque {
				return fmt.Errorf("%s: keys must be constant strings", f.Name())
			}
			iv, ok := ent.v.(IfaceV)
			if !ok || iv.T == nil {
				return fmt.Errorf("%s: value for %q is nil", f.Name(), ks.S)
			}
			if sv, isStr := iv.V.(StrV); isStr && sv.Sym == nil && !sv.Opaque && (sv.S == replModeReal || sv.S == replModeGoInline) {
				ent := newReplEntry(ks.S, nil, f.Name())
				ent.mode = sv.S
				tab.entries = append(tab.entries, ent)
				continue
			}
			cl, ok := iv.V.(*ClosureV)
			if !ok || cl == nil || cl.Fn == nil {
				return fmt.Errorf("%s: value for %q is not a function (%s)", f.Name(), ks.S, iv.T)
			}
			tab.entries = append(tab.entries, newReplEntry(ks.S, cl, f.Name()))
		}
	}
	// the table evaluation is not part of any harness
	delete(e.In.Entered, nil)
	for _, f := range decls {
		delete(e.In.Entered, f)
	}
	e.In.Repl = tab
	return nil
}

// ReplacementInfo is an entry of result.json `replacements_declared`.
type ReplacementInfo struct {
	Key         string `json:"key"`
	Replacement string `json:"replacement"`
	DeclaredIn  string `json:"declared_in"`
	Used        bool   `json:"used"`
}

func (e *Engine) replacementInfo() []ReplacementInfo {
	var out []ReplacementInfo
	if e.In.Repl == nil {
		return out
	}
	for _, r := range e.In.Repl.entries {
		if r.mode != "" {
			out = append(out, ReplacementInfo{Key: r.key, Replacement: "[" + r.mode + "]", DeclaredIn: r.decl, Used: r.used})
			continue
		}
		out = append(out, ReplacementInfo{Key: r.key, Replacement: r.fn.Fn.String(), DeclaredIn: r.decl, Used: r.used})
	}
	return out
}
