// Package ssasym is engine E1: a symbolic interpreter for Go SSA with an SMT back end.
package ssasym

import (
	"fmt"
	"math/big"
	"math/bits"
	"strconv"
	"strings"
)

// Op is a term operator.
type Op uint8

const (
	OpConst Op = iota // bit-vector constant (W>0) or Bool constant (W==0, V in {0,1})
	OpVar             // free variable (Name)
	OpNot             // bvnot / boolean not (by W)
	OpNeg             // bvneg
	OpAnd             // bvand / and
	OpOr              // bvor / or
	OpXor             // bvxor / xor
	OpAdd
	OpSub
	OpMul
	OpUDiv
	OpURem
	OpSDiv
	OpSRem
	OpShl
	OpLShr
	OpAShr
	OpConcat  // A[0] is the high part
	OpExtract // bits I..J (I>=J) of A[0]
	OpZExt    // to width W
	OpSExt    // to width W
	OpIte     // A[0] Bool, A[1], A[2]
	OpEq      // Bool result
	OpUlt
	OpUle
	OpSlt
	OpSle
)

var opSMT = map[Op]string{
	OpNeg: "bvneg", OpAdd: "bvadd", OpSub: "bvsub", OpMul: "bvmul", OpUDiv: "bvudiv", OpURem: "bvurem",
	OpSDiv: "bvsdiv", OpSRem: "bvsrem", OpShl: "bvshl", OpLShr: "bvlshr", OpAShr: "bvashr",
	OpConcat: "concat", OpIte: "ite", OpEq: "=", OpUlt: "bvult", OpUle: "bvule", OpSlt: "bvslt", OpSle: "bvsle",
}

// Term is a node of the hash-consed term DAG. W==0 means sort Bool, otherwise (_ BitVec W).
type Term struct {
	Op   Op
	W    int
	A    []*Term
	V    uint64   // constant value when W<=64
	Big  *big.Int // constant value when W>64
	Name string   // OpVar
	I, J int      // OpExtract hi, lo
	ID   int
	wr   []wire // cached bit wiring (wire.go)
}

// Pool is the hash-consing table. One per engine run; terms are immutable and shared across paths.
type Pool struct {
	tab   map[string]*Term
	n     int
	True  *Term
	False *Term
}

func NewPool() *Pool {
	p := &Pool{tab: map[string]*Term{}}
	p.True = p.intern(&Term{Op: OpConst, W: 0, V: 1})
	p.False = p.intern(&Term{Op: OpConst, W: 0, V: 0})
	return p
}

func (p *Pool) Size() int { return p.n }

func (p *Pool) intern(t *Term) *Term {
	var sb strings.Builder
	sb.WriteString(strconv.Itoa(int(t.Op)))
	sb.WriteByte(':')
	sb.WriteString(strconv.Itoa(t.W))
	switch t.Op {
	case OpConst:
		sb.WriteByte(':')
		if t.Big != nil {
			sb.WriteString(t.Big.Text(16))
		} else {
			sb.WriteString(strconv.FormatUint(t.V, 16))
		}
	case OpVar:
		sb.WriteByte(':')
		sb.WriteString(t.Name)
	case OpExtract:
		sb.WriteByte(':')
		sb.WriteString(strconv.Itoa(t.I))
		sb.WriteByte(':')
		sb.WriteString(strconv.Itoa(t.J))
	}
	for _, a := range t.A {
		sb.WriteByte(',')
		sb.WriteString(strconv.Itoa(a.ID))
	}
	k := sb.String()
	if old, ok := p.tab[k]; ok {
		return old
	}
	p.n++
	t.ID = p.n
	p.tab[k] = t
	return t
}

func mask(w int) uint64 {
	if w >= 64 {
		return ^uint64(0)
	}
	return (uint64(1) << uint(w)) - 1
}

func bigMask(w int) *big.Int {
	m := new(big.Int).Lsh(big.NewInt(1), uint(w))
	return m.Sub(m, big.NewInt(1))
}

// IsConst reports whether t is a constant.
func (t *Term) IsConst() bool { return t.Op == OpConst }

// IsBool reports whether t has sort Bool.
func (t *Term) IsBool() bool { return t.W == 0 }

// BigVal returns the unsigned value of a constant.
func (t *Term) BigVal() *big.Int {
	if t.Big != nil {
		return new(big.Int).Set(t.Big)
	}
	return new(big.Int).SetUint64(t.V)
}

// U64 returns the (low 64 bits of the) unsigned value of a constant.
func (t *Term) U64() uint64 {
	if t.Big != nil {
		return new(big.Int).And(t.Big, new(big.Int).SetUint64(^uint64(0))).Uint64()
	}
	return t.V
}

// S64 returns the sign-extended value of a constant of width <= 64.
func (t *Term) S64() int64 {
	if t.W >= 64 {
		return int64(t.U64())
	}
	v := t.V
	if v>>(uint(t.W)-1)&1 == 1 {
		v |= ^mask(t.W)
	}
	return int64(v)
}

func (p *Pool) Bool(b bool) *Term {
	if b {
		return p.True
	}
	return p.False
}

// Const makes a bit-vector constant of width w from the low bits of v.
func (p *Pool) Const(w int, v uint64) *Term {
	if w <= 0 {
		panic("Const: bad width")
	}
	if w > 64 {
		return p.intern(&Term{Op: OpConst, W: w, Big: new(big.Int).SetUint64(v)})
	}
	return p.intern(&Term{Op: OpConst, W: w, V: v & mask(w)})
}

// ConstBig makes a bit-vector constant of width w from v reduced mod 2^w (two's complement for negatives).
func (p *Pool) ConstBig(w int, v *big.Int) *Term {
	m := new(big.Int).And(v, bigMask(w)) // big.Int And on negatives is two's complement
	if v.Sign() < 0 {
		m = new(big.Int).Mod(v, new(big.Int).Lsh(big.NewInt(1), uint(w)))
	}
	if w <= 64 {
		return p.intern(&Term{Op: OpConst, W: w, V: m.Uint64()})
	}
	return p.intern(&Term{Op: OpConst, W: w, Big: m})
}

// Var makes (or finds) a free variable; w==0 is Bool.
func (p *Pool) Var(name string, w int) *Term {
	return p.intern(&Term{Op: OpVar, W: w, Name: name})
}

func (p *Pool) mk(op Op, w int, a ...*Term) *Term {
	return p.intern(&Term{Op: op, W: w, A: a})
}

func (t *Term) isZero() bool {
	return t.Op == OpConst && ((t.Big == nil && t.V == 0) || (t.Big != nil && t.Big.Sign() == 0))
}

func (t *Term) isAllOnes() bool {
	if t.Op != OpConst || t.W == 0 {
		return false
	}
	if t.Big != nil {
		return t.Big.Cmp(bigMask(t.W)) == 0
	}
	return t.V == mask(t.W)
}

func (t *Term) isOne() bool {
	return t.Op == OpConst && ((t.Big == nil && t.V == 1) || (t.Big != nil && t.Big.Cmp(big.NewInt(1)) == 0))
}

func sameW(a, b *Term) {
	if a.W != b.W {
		panic(fmt.Sprintf("term width mismatch: %d vs %d", a.W, b.W))
	}
}

func signedBig(t *Term) *big.Int {
	v := t.BigVal()
	if v.Bit(t.W-1) == 1 {
		v.Sub(v, new(big.Int).Lsh(big.NewInt(1), uint(t.W)))
	}
	return v
}

// ---------- boolean connectives ----------

func (p *Pool) Not(a *Term) *Term {
	if a.W == 0 {
		if a.Op == OpConst {
			return p.Bool(a.V == 0)
		}
		if a.Op == OpNot {
			return a.A[0]
		}
		return p.mk(OpNot, 0, a)
	}
	if a.Op == OpConst {
		if a.Big != nil {
			return p.ConstBig(a.W, new(big.Int).Xor(a.Big, bigMask(a.W)))
		}
		return p.Const(a.W, ^a.V)
	}
	if a.Op == OpNot {
		return a.A[0]
	}
	return p.mk(OpNot, a.W, a)
}

func (p *Pool) And(a, b *Term) *Term {
	sameW(a, b)
	if a.Op == OpConst && b.Op == OpConst {
		if a.W == 0 {
			return p.Bool(a.V&b.V == 1)
		}
		if a.Big != nil || b.Big != nil {
			return p.ConstBig(a.W, new(big.Int).And(a.BigVal(), b.BigVal()))
		}
		return p.Const(a.W, a.V&b.V)
	}
	if a.Op == OpConst {
		a, b = b, a
	}
	if b.Op == OpConst {
		if a.W == 0 {
			if b.V == 1 {
				return a
			}
			return p.False
		}
		if b.isZero() {
			return b
		}
		if b.isAllOnes() {
			return a
		}
	}
	if a == b {
		return a
	}
	if r := p.wireBin(OpAnd, a, b); r != nil {
		return r
	}
	if a.ID > b.ID {
		a, b = b, a
	}
	return p.mk(OpAnd, a.W, a, b)
}

func (p *Pool) Or(a, b *Term) *Term {
	sameW(a, b)
	if a.Op == OpConst && b.Op == OpConst {
		if a.W == 0 {
			return p.Bool(a.V|b.V == 1)
		}
		if a.Big != nil || b.Big != nil {
			return p.ConstBig(a.W, new(big.Int).Or(a.BigVal(), b.BigVal()))
		}
		return p.Const(a.W, a.V|b.V)
	}
	if a.Op == OpConst {
		a, b = b, a
	}
	if b.Op == OpConst {
		if a.W == 0 {
			if b.V == 1 {
				return p.True
			}
			return a
		}
		if b.isZero() {
			return a
		}
		if b.isAllOnes() {
			return b
		}
	}
	if a == b {
		return a
	}
	if r := p.wireBin(OpOr, a, b); r != nil {
		return r
	}
	if a.ID > b.ID {
		a, b = b, a
	}
	return p.mk(OpOr, a.W, a, b)
}

func (p *Pool) Xor(a, b *Term) *Term {
	sameW(a, b)
	if a.Op == OpConst && b.Op == OpConst {
		if a.W == 0 {
			return p.Bool(a.V^b.V == 1)
		}
		if a.Big != nil || b.Big != nil {
			return p.ConstBig(a.W, new(big.Int).Xor(a.BigVal(), b.BigVal()))
		}
		return p.Const(a.W, a.V^b.V)
	}
	if a.Op == OpConst {
		a, b = b, a
	}
	if b.Op == OpConst {
		if a.W == 0 {
			if b.V == 1 {
				return p.Not(a)
			}
			return a
		}
		if b.isZero() {
			return a
		}
		if b.isAllOnes() {
			return p.Not(a)
		}
	}
	if a == b {
		if a.W == 0 {
			return p.False
		}
		return p.ConstBig(a.W, new(big.Int))
	}
	if r := p.wireBin(OpXor, a, b); r != nil {
		return r
	}
	if a.ID > b.ID {
		a, b = b, a
	}
	return p.mk(OpXor, a.W, a, b)
}

// AndNot is Go's &^.
func (p *Pool) AndNot(a, b *Term) *Term { return p.And(a, p.Not(b)) }

func (p *Pool) Implies(a, b *Term) *Term { return p.Or(p.Not(a), b) }

// ---------- arithmetic ----------

func (p *Pool) arithConst(op Op, a, b *Term) *Term {
	w := a.W
	if w <= 64 && op != OpMul || w <= 32 {
		x, y := a.V, b.V
		switch op {
		case OpAdd:
			return p.Const(w, x+y)
		case OpSub:
			return p.Const(w, x-y)
		case OpMul:
			return p.Const(w, x*y)
		}
	}
	if w <= 64 && op == OpMul {
		_, lo := bits.Mul64(a.V, b.V)
		return p.Const(w, lo)
	}
	x, y := a.BigVal(), b.BigVal()
	switch op {
	case OpAdd:
		x.Add(x, y)
	case OpSub:
		x.Sub(x, y)
	case OpMul:
		x.Mul(x, y)
	}
	return p.ConstBig(w, x)
}

func (p *Pool) Add(a, b *Term) *Term {
	sameW(a, b)
	if a.Op == OpConst && b.Op == OpConst {
		return p.arithConst(OpAdd, a, b)
	}
	if a.isZero() {
		return b
	}
	if b.isZero() {
		return a
	}
	if a.ID > b.ID {
		a, b = b, a
	}
	return p.mk(OpAdd, a.W, a, b)
}

func (p *Pool) Sub(a, b *Term) *Term {
	sameW(a, b)
	if a.Op == OpConst && b.Op == OpConst {
		return p.arithConst(OpSub, a, b)
	}
	if b.isZero() {
		return a
	}
	if a == b {
		return p.ConstBig(a.W, new(big.Int))
	}
	if a.isZero() {
		return p.Neg(b)
	}
	return p.mk(OpSub, a.W, a, b)
}

func (p *Pool) Neg(a *Term) *Term {
	if a.Op == OpConst {
		return p.arithConst(OpSub, p.ConstBig(a.W, new(big.Int)), a)
	}
	if a.Op == OpNeg {
		return a.A[0]
	}
	if WireNormalForm && wireLike(a) && a.W > 1 {
		// -(b) for a value b in {0,1} is the mask with every bit equal to b
		ws := p.wires(a)
		small := true
		for _, x := range ws[1:] {
			if x.src != nil || x.bit != 0 {
				small = false
				break
			}
		}
		if small {
			out := make([]wire, a.W)
			for i := range out {
				out[i] = ws[0]
			}
			return p.canonical(out)
		}
	}
	return p.mk(OpNeg, a.W, a)
}

func (p *Pool) Mul(a, b *Term) *Term {
	sameW(a, b)
	if a.Op == OpConst && b.Op == OpConst {
		return p.arithConst(OpMul, a, b)
	}
	if a.Op == OpConst {
		a, b = b, a
	}
	if b.Op == OpConst {
		if b.isZero() {
			return b
		}
		if b.isOne() {
			return a
		}
		if b.isAllOnes() {
			return p.Neg(a)
		}
	}
	if a.ID > b.ID {
		a, b = b, a
	}
	return p.mk(OpMul, a.W, a, b)
}

// UDiv, URem, SDiv, SRem follow SMT-LIB semantics for a zero divisor (the interpreter guards
// division by zero with a panic check before building the term).
func (p *Pool) UDiv(a, b *Term) *Term {
	sameW(a, b)
	if a.Op == OpConst && b.Op == OpConst {
		if b.isZero() {
			return p.ConstBig(a.W, bigMask(a.W))
		}
		return p.ConstBig(a.W, new(big.Int).Quo(a.BigVal(), b.BigVal()))
	}
	if b.isOne() {
		return a
	}
	return p.mk(OpUDiv, a.W, a, b)
}

func (p *Pool) URem(a, b *Term) *Term {
	sameW(a, b)
	if a.Op == OpConst && b.Op == OpConst {
		if b.isZero() {
			return a
		}
		return p.ConstBig(a.W, new(big.Int).Rem(a.BigVal(), b.BigVal()))
	}
	if b.isOne() {
		return p.ConstBig(a.W, new(big.Int))
	}
	return p.mk(OpURem, a.W, a, b)
}

func (p *Pool) SDiv(a, b *Term) *Term {
	sameW(a, b)
	if a.Op == OpConst && b.Op == OpConst {
		if b.isZero() {
			if signedBig(a).Sign() < 0 {
				return p.Const(a.W, 1)
			}
			return p.ConstBig(a.W, bigMask(a.W))
		}
		return p.ConstBig(a.W, new(big.Int).Quo(signedBig(a), signedBig(b))) // truncated, as Go
	}
	if b.isOne() {
		return a
	}
	return p.mk(OpSDiv, a.W, a, b)
}

func (p *Pool) SRem(a, b *Term) *Term {
	sameW(a, b)
	if a.Op == OpConst && b.Op == OpConst {
		if b.isZero() {
			return a
		}
		return p.ConstBig(a.W, new(big.Int).Rem(signedBig(a), signedBig(b))) // sign follows dividend, as Go
	}
	return p.mk(OpSRem, a.W, a, b)
}

// Shl, LShr, AShr: both operands have the same width; a count >= W gives 0 (sign fill for AShr),
// exactly the SMT-LIB meaning.
func (p *Pool) Shl(a, b *Term) *Term {
	sameW(a, b)
	if b.Op == OpConst {
		if b.isZero() {
			return a
		}
		if b.BigVal().Cmp(big.NewInt(int64(a.W))) >= 0 {
			return p.ConstBig(a.W, new(big.Int))
		}
		if a.Op == OpConst {
			return p.ConstBig(a.W, new(big.Int).Lsh(a.BigVal(), uint(b.U64())))
		}
		if r := p.wireShift(OpShl, a, int(b.U64())); r != nil {
			return r
		}
	}
	if a.isZero() {
		return a
	}
	return p.mk(OpShl, a.W, a, b)
}

func (p *Pool) LShr(a, b *Term) *Term {
	sameW(a, b)
	if b.Op == OpConst {
		if b.isZero() {
			return a
		}
		if b.BigVal().Cmp(big.NewInt(int64(a.W))) >= 0 {
			return p.ConstBig(a.W, new(big.Int))
		}
		if a.Op == OpConst {
			return p.ConstBig(a.W, new(big.Int).Rsh(a.BigVal(), uint(b.U64())))
		}
		if r := p.wireShift(OpLShr, a, int(b.U64())); r != nil {
			return r
		}
	}
	if a.isZero() {
		return a
	}
	return p.mk(OpLShr, a.W, a, b)
}

func (p *Pool) AShr(a, b *Term) *Term {
	sameW(a, b)
	if b.Op == OpConst {
		if b.isZero() {
			return a
		}
		if a.Op == OpConst {
			n := uint(a.W)
			if b.BigVal().Cmp(big.NewInt(int64(a.W))) < 0 {
				n = uint(b.U64())
			}
			return p.ConstBig(a.W, new(big.Int).Rsh(signedBig(a), n))
		}
		k := a.W - 1
		if b.BigVal().Cmp(big.NewInt(int64(a.W))) < 0 {
			k = int(b.U64())
		}
		if r := p.wireShift(OpAShr, a, k); r != nil {
			return r
		}
	}
	return p.mk(OpAShr, a.W, a, b)
}

// ---------- structure ----------

func (p *Pool) Concat(hi, lo *Term) *Term {
	w := hi.W + lo.W
	if hi.Op == OpConst && lo.Op == OpConst {
		v := new(big.Int).Lsh(hi.BigVal(), uint(lo.W))
		v.Or(v, lo.BigVal())
		return p.ConstBig(w, v)
	}
	// concat(extract[i:j] x, extract[j-1:k] x) = extract[i:k] x
	if hi.Op == OpExtract && lo.Op == OpExtract && hi.A[0] == lo.A[0] && hi.J == lo.I+1 {
		return p.Extract(hi.A[0], hi.I, lo.J)
	}
	if hi.isZero() {
		return p.ZExt(lo, w)
	}
	if WireNormalForm {
		ws := make([]wire, 0, w)
		ws = append(ws, p.wires(lo)...)
		ws = append(ws, p.wires(hi)...)
		return p.canonical(ws)
	}
	return p.mk(OpConcat, w, hi, lo)
}

func (p *Pool) Extract(a *Term, hi, lo int) *Term {
	if hi < lo || lo < 0 || hi >= a.W {
		panic(fmt.Sprintf("Extract[%d:%d] of width %d", hi, lo, a.W))
	}
	w := hi - lo + 1
	if w == a.W {
		return a
	}
	switch a.Op {
	case OpConst:
		return p.ConstBig(w, new(big.Int).Rsh(a.BigVal(), uint(lo)))
	case OpExtract:
		return p.Extract(a.A[0], a.J+hi, a.J+lo)
	case OpConcat:
		lw := a.A[1].W
		if hi < lw {
			return p.Extract(a.A[1], hi, lo)
		}
		if lo >= lw {
			return p.Extract(a.A[0], hi-lw, lo-lw)
		}
	case OpZExt:
		iw := a.A[0].W
		if hi < iw {
			return p.Extract(a.A[0], hi, lo)
		}
		if lo >= iw {
			return p.ConstBig(w, new(big.Int))
		}
	case OpSExt:
		iw := a.A[0].W
		if hi < iw {
			return p.Extract(a.A[0], hi, lo)
		}
	case OpAnd, OpOr, OpXor:
		// push extraction through bitwise operators when one side is constant (mask idioms)
		if a.A[0].Op == OpConst || a.A[1].Op == OpConst {
			x, y := p.Extract(a.A[0], hi, lo), p.Extract(a.A[1], hi, lo)
			switch a.Op {
			case OpAnd:
				return p.And(x, y)
			case OpOr:
				return p.Or(x, y)
			default:
				return p.Xor(x, y)
			}
		}
	case OpNot:
		return p.Not(p.Extract(a.A[0], hi, lo))
	case OpShl:
		if a.A[1].Op == OpConst {
			k := int(a.A[1].U64())
			if hi < k {
				return p.ConstBig(w, new(big.Int))
			}
			if lo >= k {
				return p.Extract(a.A[0], hi-k, lo-k)
			}
		}
	case OpLShr:
		if a.A[1].Op == OpConst {
			k := int(a.A[1].U64())
			if lo+k >= a.W {
				return p.ConstBig(w, new(big.Int))
			}
			if hi+k < a.W {
				return p.Extract(a.A[0], hi+k, lo+k)
			}
		}
	}
	if WireNormalForm && wireLike(a) {
		return p.canonical(p.wires(a)[lo : hi+1])
	}
	return p.intern(&Term{Op: OpExtract, W: w, A: []*Term{a}, I: hi, J: lo})
}

func (p *Pool) ZExt(a *Term, w int) *Term {
	if w == a.W {
		return a
	}
	if w < a.W {
		panic("ZExt: narrowing")
	}
	if a.Op == OpConst {
		return p.ConstBig(w, a.BigVal())
	}
	if a.Op == OpZExt {
		return p.ZExt(a.A[0], w)
	}
	if WireNormalForm && isShuffle(a) {
		ws := make([]wire, w)
		copy(ws, p.wires(a))
		for i := a.W; i < w; i++ {
			ws[i] = wire{nil, 0}
		}
		return p.canonical(ws)
	}
	return p.mk(OpZExt, w, a)
}

func (p *Pool) SExt(a *Term, w int) *Term {
	if w == a.W {
		return a
	}
	if w < a.W {
		panic("SExt: narrowing")
	}
	if a.Op == OpConst {
		return p.ConstBig(w, signedBig(a))
	}
	if a.Op == OpZExt {
		return p.ZExt(a.A[0], w) // top bit is known zero
	}
	if a.Op == OpSExt {
		return p.SExt(a.A[0], w)
	}
	return p.mk(OpSExt, w, a)
}

// Trunc keeps the low w bits.
func (p *Pool) Trunc(a *Term, w int) *Term {
	if w == a.W {
		return a
	}
	return p.Extract(a, w-1, 0)
}

func (p *Pool) Ite(c, a, b *Term) *Term {
	sameW(a, b)
	if c.W != 0 {
		panic("Ite: condition is not Bool")
	}
	if c.Op == OpConst {
		if c.V == 1 {
			return a
		}
		return b
	}
	if a == b {
		return a
	}
	if a.W == 0 {
		if a.Op == OpConst && b.Op == OpConst {
			if a.V == 1 {
				return c
			}
			return p.Not(c)
		}
		if a.Op == OpConst {
			if a.V == 1 {
				return p.Or(c, b)
			}
			return p.And(p.Not(c), b)
		}
		if b.Op == OpConst {
			if b.V == 1 {
				return p.Or(p.Not(c), a)
			}
			return p.And(c, a)
		}
	}
	if c.Op == OpNot {
		return p.mk(OpIte, a.W, c.A[0], b, a)
	}
	return p.mk(OpIte, a.W, c, a, b)
}

// ---------- predicates ----------

func (p *Pool) Eq(a, b *Term) *Term {
	sameW(a, b)
	if a == b {
		return p.True
	}
	if a.Op == OpConst && b.Op == OpConst {
		return p.Bool(a.BigVal().Cmp(b.BigVal()) == 0)
	}
	if a.W == 0 {
		if a.Op == OpConst {
			a, b = b, a
		}
		if b.Op == OpConst {
			if b.V == 1 {
				return a
			}
			return p.Not(a)
		}
	} else {
		if a.Op == OpConst {
			a, b = b, a
		}
		// ite(c, k1, k2) == k  with constants folds to c / !c / false
		if b.Op == OpConst && a.Op == OpIte && a.A[1].Op == OpConst && a.A[2].Op == OpConst {
			e1 := a.A[1].BigVal().Cmp(b.BigVal()) == 0
			e2 := a.A[2].BigVal().Cmp(b.BigVal()) == 0
			switch {
			case e1 && e2:
				return p.True
			case e1:
				return a.A[0]
			case e2:
				return p.Not(a.A[0])
			default:
				return p.False
			}
		}
		// zext(x) == const
		if b.Op == OpConst && a.Op == OpZExt {
			iw := a.A[0].W
			if b.BigVal().BitLen() > iw {
				return p.False
			}
			return p.Eq(a.A[0], p.ConstBig(iw, b.BigVal()))
		}
	}
	if a.ID > b.ID {
		a, b = b, a
	}
	return p.mk(OpEq, 0, a, b)
}

func (p *Pool) Ne(a, b *Term) *Term { return p.Not(p.Eq(a, b)) }

func (p *Pool) Ult(a, b *Term) *Term {
	sameW(a, b)
	if a == b {
		return p.False
	}
	if a.Op == OpConst && b.Op == OpConst {
		return p.Bool(a.BigVal().Cmp(b.BigVal()) < 0)
	}
	if b.isZero() {
		return p.False
	}
	if a.isAllOnes() {
		return p.False
	}
	return p.mk(OpUlt, 0, a, b)
}

func (p *Pool) Ule(a, b *Term) *Term {
	sameW(a, b)
	if a == b {
		return p.True
	}
	if a.Op == OpConst && b.Op == OpConst {
		return p.Bool(a.BigVal().Cmp(b.BigVal()) <= 0)
	}
	if a.isZero() {
		return p.True
	}
	if b.isAllOnes() {
		return p.True
	}
	return p.mk(OpUle, 0, a, b)
}

func (p *Pool) Slt(a, b *Term) *Term {
	sameW(a, b)
	if a == b {
		return p.False
	}
	if a.Op == OpConst && b.Op == OpConst {
		return p.Bool(signedBig(a).Cmp(signedBig(b)) < 0)
	}
	return p.mk(OpSlt, 0, a, b)
}

func (p *Pool) Sle(a, b *Term) *Term {
	sameW(a, b)
	if a == b {
		return p.True
	}
	if a.Op == OpConst && b.Op == OpConst {
		return p.Bool(signedBig(a).Cmp(signedBig(b)) <= 0)
	}
	return p.mk(OpSle, 0, a, b)
}

// BoolToBV gives ite(c, 1, 0) at width w.
func (p *Pool) BoolToBV(c *Term, w int) *Term {
	return p.Ite(c, p.Const(w, 1), p.Const(w, 0))
}

// ---------- evaluation under a model ----------

// Eval evaluates t with variable values from env (missing variables are 0/false).
// The result is the unsigned value (0/1 for Bool). Iterative over the DAG, memoised.
func (p *Pool) Eval(t *Term, env map[string]*big.Int) *big.Int {
	memo := map[int]*big.Int{}
	var ev func(t *Term) *big.Int
	ev = func(t *Term) *big.Int {
		if v, ok := memo[t.ID]; ok {
			return v
		}
		var r *big.Int
		switch t.Op {
		case OpConst:
			r = t.BigVal()
		case OpVar:
			if v, ok := env[t.Name]; ok {
				r = new(big.Int).Set(v)
			} else {
				r = new(big.Int)
			}
		default:
			args := make([]*Term, len(t.A))
			for i, a := range t.A {
				v := ev(a)
				if a.W == 0 {
					args[i] = p.Bool(v.Sign() != 0)
				} else {
					args[i] = p.ConstBig(a.W, v)
				}
			}
			var c *Term
			switch t.Op {
			case OpNot:
				c = p.Not(args[0])
			case OpNeg:
				c = p.Neg(args[0])
			case OpAnd:
				c = p.And(args[0], args[1])
			case OpOr:
				c = p.Or(args[0], args[1])
			case OpXor:
				c = p.Xor(args[0], args[1])
			case OpAdd:
				c = p.Add(args[0], args[1])
			case OpSub:
				c = p.Sub(args[0], args[1])
			case OpMul:
				c = p.Mul(args[0], args[1])
			case OpUDiv:
				c = p.UDiv(args[0], args[1])
			case OpURem:
				c = p.URem(args[0], args[1])
			case OpSDiv:
				c = p.SDiv(args[0], args[1])
			case OpSRem:
				c = p.SRem(args[0], args[1])
			case OpShl:
				c = p.Shl(args[0], args[1])
			case OpLShr:
				c = p.LShr(args[0], args[1])
			case OpAShr:
				c = p.AShr(args[0], args[1])
			case OpConcat:
				c = p.Concat(args[0], args[1])
			case OpExtract:
				c = p.Extract(args[0], t.I, t.J)
			case OpZExt:
				c = p.ZExt(args[0], t.W)
			case OpSExt:
				c = p.SExt(args[0], t.W)
			case OpIte:
				c = p.Ite(args[0], args[1], args[2])
			case OpEq:
				c = p.Eq(args[0], args[1])
			case OpUlt:
				c = p.Ult(args[0], args[1])
			case OpUle:
				c = p.Ule(args[0], args[1])
			case OpSlt:
				c = p.Slt(args[0], args[1])
			case OpSle:
				c = p.Sle(args[0], args[1])
			default:
				panic("Eval: unknown op")
			}
			if !c.IsConst() {
				panic("Eval: did not fold to a constant")
			}
			r = c.BigVal()
		}
		memo[t.ID] = r
		return r
	}
	return ev(t)
}

// ---------- SMT-LIB printing helpers ----------

func sortSMT(w int) string {
	if w == 0 {
		return "Bool"
	}
	return "(_ BitVec " + strconv.Itoa(w) + ")"
}

func constSMT(t *Term) string {
	if t.W == 0 {
		if t.V == 1 {
			return "true"
		}
		return "false"
	}
	v := t.BigVal()
	if t.W%4 == 0 {
		s := v.Text(16)
		return "#x" + strings.Repeat("0", t.W/4-len(s)) + s
	}
	s := v.Text(2)
	return "#b" + strings.Repeat("0", t.W-len(s)) + s
}

// ref is how a term is referred to inside other expressions.
func ref(t *Term) string {
	switch t.Op {
	case OpConst:
		return constSMT(t)
	case OpVar:
		return t.Name
	}
	return "t" + strconv.Itoa(t.ID)
}

// body prints the defining expression of a non-leaf term, referring to its arguments by name.
func body(t *Term) string {
	var sb strings.Builder
	switch t.Op {
	case OpExtract:
		fmt.Fprintf(&sb, "((_ extract %d %d) %s)", t.I, t.J, ref(t.A[0]))
		return sb.String()
	case OpZExt:
		fmt.Fprintf(&sb, "((_ zero_extend %d) %s)", t.W-t.A[0].W, ref(t.A[0]))
		return sb.String()
	case OpSExt:
		fmt.Fprintf(&sb, "((_ sign_extend %d) %s)", t.W-t.A[0].W, ref(t.A[0]))
		return sb.String()
	}
	var name string
	switch t.Op {
	case OpNot:
		if t.W == 0 {
			name = "not"
		} else {
			name = "bvnot"
		}
	case OpAnd:
		if t.W == 0 {
			name = "and"
		} else {
			name = "bvand"
		}
	case OpOr:
		if t.W == 0 {
			name = "or"
		} else {
			name = "bvor"
		}
	case OpXor:
		if t.W == 0 {
			name = "xor"
		} else {
			name = "bvxor"
		}
	default:
		name = opSMT[t.Op]
	}
	sb.WriteByte('(')
	sb.WriteString(name)
	for _, a := range t.A {
		sb.WriteByte(' ')
		sb.WriteString(ref(a))
	}
	sb.WriteByte(')')
	return sb.String()
}
