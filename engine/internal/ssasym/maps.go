package ssasym

import (
	"fmt"
	"strings"
)

// MapV is a Go map: insertion ordered (Go's iteration order is unspecified; insertion order is
// one admissible order). Keys may be symbolic: a lookup compares the key with every entry it
// could equal (`==` as a term) and forks where the path condition does not decide the
// comparison, so a harness that assumes its symbolic keys distinct pays queries but no forks.
type MapV struct {
	ents []*mapEntry
	idx  map[string]*mapEntry // live entries with fully concrete keys
	nsym int                  // live entries with symbolic keys
}

type mapEntry struct {
	k, v Value
	ks   string
	conc bool
	dead bool
}

func newMap() *MapV { return &MapV{idx: map[string]*mapEntry{}} }

func (m *MapV) live() []*mapEntry {
	out := make([]*mapEntry, 0, len(m.ents))
	for _, e := range m.ents {
		if !e.dead {
			out = append(out, e)
		}
	}
	return out
}

func (m *MapV) size() int { return len(m.idx) + m.nsym }

func (m *MapV) clone() *MapV {
	c := newMap()
	for _, e := range m.live() {
		ne := &mapEntry{k: e.k, v: copyVal(e.v), ks: e.ks, conc: e.conc}
		c.ents = append(c.ents, ne)
		if ne.conc {
			c.idx[ne.ks] = ne
		} else {
			c.nsym++
		}
	}
	return c
}

func (m *MapV) clear() {
	m.ents, m.idx, m.nsym = nil, map[string]*mapEntry{}, 0
}

// mapKey canonicalises a key: (string form, fully concrete?, supported?).
func (in *Interp) mapKey(v Value) (string, bool, bool) {
	switch x := v.(type) {
	case *Term:
		if !x.IsConst() {
			return "", false, true
		}
		return fmt.Sprintf("i%d:%s", x.W, x.BigVal().Text(16)), true, true
	case StrV:
		if x.Opaque {
			return "", false, false
		}
		if x.Sym != nil {
			return "", false, true
		}
		return "s:" + x.S, true, true
	case PtrV:
		if x.Sym != nil {
			return "", false, false
		}
		return fmt.Sprintf("p:%p", x.P), true, true
	case IfaceV:
		if x.T == nil {
			return "nil", true, true
		}
		k, conc, ok := in.mapKey(x.V)
		return "I(" + x.T.String() + ")" + k, conc, ok
	case ArrayV, StructV:
		var elems []Value
		if a, ok := x.(ArrayV); ok {
			elems = a
		} else {
			elems = x.(StructV)
		}
		var sb strings.Builder
		sb.WriteString("[")
		conc := true
		for _, e := range elems {
			k, c, ok := in.mapKey(e)
			if !ok {
				return "", false, false
			}
			conc = conc && c
			sb.WriteString(k)
			sb.WriteString(",")
		}
		return sb.String() + "]", conc, true
	}
	return "", false, false
}

// mapFind returns the live entry whose key equals k, forking on undecided comparisons.
func (in *Interp) mapFind(fr *frame, m *MapV, k Value) *mapEntry {
	ks, conc, ok := in.mapKey(k)
	if !ok {
		in.notEncodable("map key of unsupported kind %T in %s", k, fr.fn)
		return nil
	}
	if conc {
		if e, ok := m.idx[ks]; ok && !e.dead {
			return e
		}
		if m.nsym == 0 {
			return nil
		}
	}
	for _, e := range m.ents {
		if e.dead || (conc && e.conc) {
			continue
		}
		eq := in.eqValue(k, e.k)
		if eq.IsConst() {
			if eq.V == 1 {
				return e
			}
			continue
		}
		if in.branch(fr, eq) {
			return e
		}
	}
	return nil
}

func (in *Interp) mapSet(fr *frame, m *MapV, k, v Value) {
	if e := in.mapFind(fr, m, k); e != nil {
		e.v = v
		return
	}
	ks, conc, _ := in.mapKey(k)
	e := &mapEntry{k: k, v: v, ks: ks, conc: conc}
	m.ents = append(m.ents, e)
	if conc {
		m.idx[ks] = e
	} else {
		m.nsym++
	}
}

func (in *Interp) mapDelete(fr *frame, m *MapV, k Value) {
	e := in.mapFind(fr, m, k)
	if e == nil {
		return
	}
	e.dead = true
	if e.conc {
		delete(m.idx, e.ks)
	} else {
		m.nsym--
	}
}
