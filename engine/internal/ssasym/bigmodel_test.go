package ssasym

import (
	"math/rand"
	"testing"

	"github.com/bronlabs/bron-crypto/pkg/base/nt/num"
)

// Differential validation of the abstract big-integer model (bigmodel.go) against the REAL
// pkg/base/nt/num implementation: every modelled method, on random small and boundary values.

func cI(p *Pool, x int64) *Term   { return p.Const(BigW, uint64(x)) }
func cU(p *Pool, x uint64) *Term  { return p.Const(BigW, x) }
func c64(p *Pool, x uint64) *Term { return p.Const(64, x) }

func randSmall(rng *rand.Rand) uint64 {
	switch rng.Intn(6) {
	case 0:
		return uint64(rng.Intn(4))
	case 1:
		return uint64(rng.Intn(256))
	case 2:
		return uint64(rng.Intn(1 << 16))
	case 3:
		return uint64(1)<<31 - uint64(rng.Intn(3)) - 1
	case 4:
		return uint64(1)<<32 - 1 - uint64(rng.Intn(3))
	}
	return uint64(rng.Uint32())
}

func TestBigModelAgainstRealNum(t *testing.T) {
	rng := rand.New(rand.NewSource(99))
	p := NewPool()
	for iter := 0; iter < 4000; iter++ {
		// a signed value in [-2^31, 2^31), unsigned values in [0, 2^32), a positive modulus
		xs := int64(int32(uint32(randSmall(rng))))
		if rng.Intn(3) == 0 {
			xs = -xs
			if xs < -(1<<31) || xs >= 1<<31 {
				xs = -(1 << 31)
			}
		}
		u := randSmall(rng)
		m := randSmall(rng)
		if m == 0 {
			m = 1
		}
		sh := uint(rng.Intn(70))
		bi := uint(rng.Intn(10))

		rx := num.Z().FromInt64(xs)
		ru := num.N().FromUint64(u)
		rm, err := num.NPlus().FromUint64(m)
		if err != nil {
			t.Fatal(err)
		}
		rm2, _ := num.NPlus().FromUint64(u | 1)

		check := func(what string, got *Term, want uint64) {
			t.Helper()
			if !got.IsConst() {
				t.Fatalf("%s: model result is not constant", what)
			}
			if got.U64() != want {
				t.Fatalf("%s: x=%d u=%d m=%d sh=%d i=%d: model %d, real %d", what, xs, u, m, sh, bi, got.U64(), want)
			}
		}
		b2u := func(b bool) uint64 {
			if b {
				return 1
			}
			return 0
		}

		// (*Int).Abs, IsNegative, Mod, Clone
		check("Int.Abs", bigAbs(p, cI(p, xs)), rx.Abs().Uint64())
		check("Int.IsNegative", bigIsNeg(p, cI(p, xs)), b2u(rx.IsNegative()))
		check("Int.Mod", bigIntMod(p, cI(p, xs), cU(p, m)), rx.Mod(rm).Nat().Uint64())
		check("Int.Clone", cI(p, xs), uint64(uint32(rx.Clone().Big().Int64())))
		// (*Nat).Mod, IsZero, Rsh, Byte, Clone, Value().Big().Bit
		check("Nat.Mod", bigNatMod(p, cU(p, u), cU(p, m)), ru.Mod(rm).Nat().Uint64())
		check("Nat.IsZero", p.Eq(cU(p, u), p.Const(BigW, 0)), b2u(ru.IsZero()))
		check("Nat.Rsh", bigRsh(p, cU(p, u), c64(p, uint64(sh))), ru.Rsh(sh).Uint64())
		check("Nat.Byte", bigByte(p, cU(p, u), c64(p, uint64(bi))), uint64(ru.Byte(bi)))
		check("Nat.Clone", cU(p, u), ru.Clone().Uint64())
		check("Nat.Value.Big.Bit", bigBit(p, cU(p, u), c64(p, uint64(sh))), uint64(ru.Value().Big().Bit(int(sh))))
		// (*NatPlus).Clone, IsEven, IsOne, Byte, Mod
		check("NatPlus.Clone", cU(p, m), rm.Clone().Value().Uint64())
		check("NatPlus.IsEven", p.Eq(p.Extract(cU(p, m), 0, 0), p.Const(1, 0)), b2u(rm.IsEven()))
		check("NatPlus.IsOne", p.Eq(cU(p, m), p.Const(BigW, 1)), b2u(rm.IsOne()))
		check("NatPlus.Byte", bigByte(p, cU(p, m), c64(p, uint64(bi))), uint64(rm.Byte(bi)))
		check("NatPlus.Mod", bigNatMod(p, cU(p, m), cU(p, u|1)), rm.Mod(rm2).Nat().Uint64())
		// (*Uint).Nat: identity on the value
		check("Uint.Nat", bigNatMod(p, cU(p, u), cU(p, m)), ru.Mod(rm).Nat().Uint64())
		// num.NPlus().FromNat: error iff zero, value preserved
		np, err := num.NPlus().FromNat(ru)
		if (err != nil) != (u == 0) {
			t.Fatalf("FromNat(%d): real error %v", u, err)
		}
		if err == nil {
			check("NPlus.FromNat", cU(p, u), np.Value().Uint64())
		}
		// num.NPlus().FromUint64: error iff zero
		if _, err := num.NPlus().FromUint64(0); err == nil {
			t.Fatal("FromUint64(0) must fail")
		}
	}
}
