package ssasym

import (
	"fmt"
	"math/big"
	"math/rand"
	"sort"
	"strings"
	"time"

	"golang.org/x/tools/go/ssa"
)

// Config holds the engine options.
type Config struct {
	Solver    string
	TimeoutMS int
	MaxPaths  int
	MaxSteps  int64
	MaxEvents int // solver-consulting events (forks, checks) per path
	ReplayDir string
	Seed      int64
	Verbose   bool
	SMTLog    string
	NoReplay  bool // do not run native replays (violations are then reported as inconclusive)
}

// Obligation is one entry of result.json.
type Obligation struct {
	ID      string                 `json:"id"`
	Harness string                 `json:"harness"`
	Status  string                 `json:"status"`
	Paths   int                    `json:"paths"`
	Queries map[string]int         `json:"queries"`
	SolverS float64                `json:"solver_s"`
	Model   map[string]interface{} `json:"model"`
	Replay  *string                `json:"replay"`
	Reason  string                 `json:"reason"`
	Ghost   bool                   `json:"ghost,omitempty"` // stated with verifAssertGhost

	kind        string // assert | reach | panic
	stats       QueryStats
	unknown     string // reason for an inconclusive check
	cand        *candidate
	candCount   int
	reached     bool
	ghost       bool // stated with verifAssertGhost: not confirmable natively
	mismatch    bool
	trivialOnly bool
}

// candidate is a counterexample awaiting native confirmation.
type candidate struct {
	assign  *Assignment
	model   map[string]interface{}
	expectP bool     // expect a native panic instead of a failed assert
	ideal   bool     // the path involves outputs of an idealised hash: the model may not be realisable
	repls   []string // harness contracts (replacements) used on the path
	skipped string   // the native twin declined to replay (verifSkipReplay marker)
	infra   bool     // the native replay could not be carried out (build failure, no report, desync)
}

// InputEntry is one intrinsic call's worth of recorded input.
type InputEntry struct {
	K string   `json:"k"`
	V []uint64 `json:"v"`
}

// Assignment is what the native twin replays.
type Assignment struct {
	Harness string       `json:"harness"`
	Values  []InputEntry `json:"values"`
}

type inputRec struct {
	kind  string
	terms []*Term
	val   int  // for len
	ghost bool // drawn inside a harness contract (replace.go): not replayed natively
}

// TraceEvent is one observable step of a run, used by the differential self-test.
type TraceEvent struct {
	K  string `json:"k"` // assert | observe | reach
	ID string `json:"id"`
	OK bool   `json:"ok,omitempty"`
	V  uint64 `json:"v,omitempty"`
}

type event struct {
	kind   byte // 'd' decision, 'v' value enumeration, 'a' assert, 'r' reach, 'e' entailment
	k, n   int
	exact  bool
	forced bool
	val    uint64
	tried  []uint64
	res    bool
	closed bool // binary decision whose other side is known infeasible
	altOK  bool // binary decision whose other side is known feasible
}

// Explorer owns path exploration for one harness function.
type Explorer struct {
	P   *Pool
	In  *Interp
	Cfg *Config
	inc *Solver
	one *Solver

	harness string
	script  []event
	events  []event
	pc      []*Term
	inputs  []inputRec
	nvars   int
	trace   []TraceEvent

	obl      map[string]*Obligation
	order    []string
	paths    int
	dropped  int
	incFlag  string
	neFlag   string
	total    QueryStats
	concrete bool
	rng      *rand.Rand
	log      func(format string, a ...interface{})

	// symbolic hash outputs of the current path (hash.go)
	hashReg   map[string]*hashEntry
	hashList  []*hashEntry
	idealHash bool // some output of an idealised (uninterpreted) hash exists on this path

	replOnPath map[string]bool // harness contracts used on the current path
	replAll    map[string]bool // ... on any path of this harness
}

func (e *Explorer) getObl(kind, id string) *Obligation {
	key := id
	if kind == "reach" {
		key = "reach:" + id
	}
	if o, ok := e.obl[key]; ok {
		return o
	}
	o := &Obligation{ID: key, Harness: e.harness, kind: kind, trivialOnly: true}
	e.obl[key] = o
	e.order = append(e.order, key)
	return o
}

func (e *Explorer) resetPath() {
	e.events = nil
	e.pc = nil
	e.inputs = nil
	e.nvars = 0
	e.trace = nil
	e.hashReg = map[string]*hashEntry{}
	e.hashList = nil
	e.idealHash = false
	e.replOnPath = map[string]bool{}
}

// ---------- inputs ----------

func (e *Explorer) randVal(w int) uint64 {
	r := e.rng.Intn(10)
	var v uint64
	switch {
	case r < 5:
		v = e.rng.Uint64()
	case r < 8:
		v = uint64(e.rng.Intn(21))
	default:
		switch e.rng.Intn(5) {
		case 0:
			v = 0
		case 1:
			v = 1
		case 2:
			v = ^uint64(0)
		case 3:
			v = ^uint64(0) - 1
		default:
			if w > 0 {
				v = uint64(1) << uint(w-1)
			}
		}
	}
	if w == 0 {
		return v & 1
	}
	return v & mask(w)
}

func (e *Explorer) newScalar(kind string, w int) *Term {
	if e.concrete {
		v := e.randVal(w)
		if w == 0 {
			return e.P.Bool(v == 1)
		}
		return e.P.Const(w, v)
	}
	name := fmt.Sprintf("in%d_%s", e.nvars, kind)
	e.nvars++
	return e.P.Var(name, w)
}

func (e *Explorer) Input(kind string, w int) *Term {
	t := e.newScalar(kind, w)
	e.inputs = append(e.inputs, inputRec{kind: kind, terms: []*Term{t}, ghost: e.In.replDepth > 0})
	return t
}

func (e *Explorer) InputVec(kind string, w, n int) []*Term {
	ts := make([]*Term, n)
	if e.concrete {
		// whole-vector special cases help equality-style harnesses
		mode := e.rng.Intn(6)
		for i := range ts {
			switch mode {
			case 0:
				ts[i] = e.P.Const(w, 0)
			case 1:
				ts[i] = e.P.Const(w, uint64(e.rng.Intn(2)))
			default:
				ts[i] = e.newScalar(kind, w)
			}
		}
	} else {
		for i := range ts {
			ts[i] = e.newScalar(kind, w)
		}
	}
	e.inputs = append(e.inputs, inputRec{kind: kind, terms: ts, ghost: e.In.replDepth > 0})
	return ts
}

func (e *Explorer) Len(lo, hi int) int {
	var v int
	if e.concrete {
		v = lo + e.rng.Intn(hi-lo+1)
	} else {
		v = lo + e.Decide(hi-lo+1, nil, "verifLen")
	}
	e.inputs = append(e.inputs, inputRec{kind: "len", val: v, ghost: e.In.replDepth > 0})
	return v
}

func (e *Explorer) inputVars() []*Term {
	var vs []*Term
	seen := map[int]bool{}
	for _, r := range e.inputs {
		for _, t := range r.terms {
			if t.Op == OpVar && !seen[t.ID] {
				seen[t.ID] = true
				vs = append(vs, t)
			}
		}
	}
	return vs
}

// assignment evaluates the recorded inputs under a model.
func (e *Explorer) assignment(model map[string]*big.Int) (*Assignment, map[string]interface{}) {
	a := &Assignment{Harness: e.harness}
	pretty := map[string]interface{}{}
	for i, r := range e.inputs {
		ent := InputEntry{K: r.kind}
		if r.kind == "len" {
			ent.V = []uint64{uint64(r.val)}
		} else {
			for _, t := range r.terms {
				ent.V = append(ent.V, e.P.Eval(t, model).Uint64())
			}
		}
		if ent.V == nil {
			ent.V = []uint64{}
		}
		strs := make([]string, len(ent.V))
		for j, v := range ent.V {
			strs[j] = fmt.Sprintf("%#x", v)
		}
		if r.ghost {
			// chosen by a harness contract: the native twin calls the real function instead
			pretty[fmt.Sprintf("%03d_%s_contract", i, r.kind)] = strs
			continue
		}
		a.Values = append(a.Values, ent)
		pretty[fmt.Sprintf("%03d_%s", i, r.kind)] = strs
	}
	if a.Values == nil {
		a.Values = []InputEntry{}
	}
	return a, pretty
}

// ---------- solver access ----------

func (e *Explorer) queryInc(q *Term, wantModel bool, extra []*Term) (SatResult, map[string]*big.Int) {
	vars := e.inputVars()
	vars = append(vars, extra...)
	res, model, d := e.inc.CheckInc(e.pc, q, vars, wantModel)
	e.total.add(res, d)
	if res == Unknown && e.Cfg.Verbose {
		e.log("  solver unknown (%s)", e.inc.LastErr)
	}
	return res, model
}

// Decide picks one of n exhaustive alternatives (cond(k) is its condition, nil meaning "always
// possible") and records the choice; unexplored alternatives are visited by later paths.
func (e *Explorer) checkEventBound(what string) {
	if len(e.events) >= e.Cfg.MaxEvents {
		panic(&abort{abBudget, fmt.Sprintf("decision bound %d per path exceeded (%s): a loop or recursion whose bound depends on symbolic data?", e.Cfg.MaxEvents, what)})
	}
}

func (e *Explorer) Decide(n int, cond func(k int) *Term, what string) int {
	e.checkEventBound(what)
	idx := len(e.events)
	start := 0
	if idx < len(e.script) {
		ev := e.script[idx]
		if ev.kind != 'd' || ev.n != n {
			panic(fmt.Sprintf("engine: non-deterministic re-execution at event %d (%s)", idx, what))
		}
		if ev.exact {
			if cond != nil && !ev.forced && !ev.closed {
				if c := cond(ev.k); !c.IsConst() {
					e.pc = append(e.pc, c)
				}
			}
			e.events = append(e.events, ev)
			return ev.k
		}
		start = ev.k
	}
	allPrevInfeasible := start == 0
	for k := start; k < n; k++ {
		var c *Term
		if cond != nil {
			c = cond(k)
		}
		feasible, forced := false, false
		switch {
		case c == nil:
			feasible = true
		case c.IsConst():
			feasible = c.V == 1
		case k == n-1 && allPrevInfeasible:
			feasible, forced = true, true
		default:
			res, _ := e.queryInc(c, false, nil)
			switch res {
			case Sat:
				feasible = true
			case Unknown:
				feasible = true
				e.incFlag = "solver returned unknown for a feasibility check (" + what + ")"
			}
		}
		if feasible {
			ev := event{kind: 'd', k: k, n: n, exact: true, forced: forced}
			if n == 2 && k == 0 && cond != nil && c != nil && !c.IsConst() {
				// decide the other side now, while the solver context is warm: saves a whole
				// re-execution when it is infeasible and a query when it is feasible
				if c1 := cond(1); c1.IsConst() {
					ev.closed = c1.V == 0
					ev.altOK = c1.V == 1
				} else {
					switch res, _ := e.queryInc(c1, false, nil); res {
					case Unsat:
						ev.closed = true
					case Sat:
						ev.altOK = true
					}
				}
			}
			if c != nil && !c.IsConst() && !forced && !ev.closed {
				e.pc = append(e.pc, c)
			}
			e.events = append(e.events, ev)
			return k
		}
	}
	panic(&abort{abDrop, "no feasible alternative: " + what})
}

// DecideValue enumerates the feasible values of a term, one per path.
func (e *Explorer) DecideValue(x *Term, what string) uint64 {
	e.checkEventBound(what)
	idx := len(e.events)
	var tried []uint64
	if idx < len(e.script) {
		ev := e.script[idx]
		if ev.kind != 'v' {
			panic(fmt.Sprintf("engine: non-deterministic re-execution at event %d (%s)", idx, what))
		}
		if ev.exact {
			e.pc = append(e.pc, e.P.Eq(x, e.P.Const(x.W, ev.val)))
			e.events = append(e.events, ev)
			return ev.val
		}
		tried = ev.tried
	}
	q := e.P.True
	for _, v := range tried {
		q = e.P.And(q, e.P.Ne(x, e.P.Const(x.W, v)))
	}
	if len(tried) > 4096 {
		panic(&abort{abBudget, "more than 4096 feasible values for " + what})
	}
	res, model := e.queryInc(q, true, []*Term{x})
	switch res {
	case Unsat:
		panic(&abort{abDrop, "values exhausted: " + what})
	case Unknown:
		panic(&abort{abBudget, "solver returned unknown while enumerating values (" + what + ")"})
	}
	var v uint64
	if mv, ok := model[ref(x)]; ok {
		v = mv.Uint64()
	} else {
		v = e.P.Eval(x, model).Uint64()
	}
	e.pc = append(e.pc, e.P.Eq(x, e.P.Const(x.W, v)))
	nt := append(append([]uint64{}, tried...), v)
	e.events = append(e.events, event{kind: 'v', exact: true, val: v, tried: nt})
	return v
}

// Assume adds a precondition; the path is dropped if it becomes infeasible.
func (e *Explorer) Assume(c *Term) {
	if c.IsConst() {
		if c.V == 0 {
			panic(&abort{abDrop, "assumption false"})
		}
		return
	}
	e.checkEventBound("verifAssume")
	idx := len(e.events)
	if idx < len(e.script) {
		ev := e.script[idx]
		if ev.kind != 's' {
			panic("engine: non-deterministic re-execution (assume)")
		}
		e.events = append(e.events, ev)
		if !ev.res {
			panic(&abort{abDrop, "assumption false"})
		}
		if !ev.forced {
			e.pc = append(e.pc, c)
		}
		return
	}
	res, _ := e.queryInc(c, false, nil)
	switch res {
	case Unsat:
		e.events = append(e.events, event{kind: 's', exact: true, res: false})
		panic(&abort{abDrop, "assumption false"})
	case Unknown:
		e.incFlag = "solver returned unknown for the feasibility of an assumption"
	}
	e.events = append(e.events, event{kind: 's', exact: true, res: true})
	e.pc = append(e.pc, c)
}

// Entails reports whether the path condition implies c (unknown counts as "no").
func (e *Explorer) Entails(c *Term) bool {
	if c.IsConst() {
		return c.V == 1
	}
	idx := len(e.events)
	if idx < len(e.script) {
		ev := e.script[idx]
		if ev.kind != 'e' {
			panic("engine: non-deterministic re-execution (entailment)")
		}
		e.events = append(e.events, ev)
		return ev.res
	}
	res, _ := e.queryInc(e.P.Not(c), false, nil)
	e.events = append(e.events, event{kind: 'e', exact: true, res: res == Unsat})
	return res == Unsat
}

// Assert checks an obligation on the current path.
func (e *Explorer) Assert(id string, c *Term) { e.AssertKind(id, c, false) }

// AssertKind: ghost = the condition reads ghost state of harness contracts (verifAssertGhost).
func (e *Explorer) AssertKind(id string, c *Term, ghost bool) {
	if e.concrete {
		if !c.IsConst() {
			panic("engine: symbolic value in concrete mode")
		}
		if ghost {
			// contracts are off in concrete mode and natively: the value is not compared
			e.trace = append(e.trace, TraceEvent{K: "assert-ghost", ID: id})
			return
		}
		e.trace = append(e.trace, TraceEvent{K: "assert", ID: id, OK: c.V == 1})
		return
	}
	o := e.getObl("assert", id)
	if ghost {
		o.ghost = true
		o.Ghost = true
	}
	idx := len(e.events)
	if idx < len(e.script) {
		if e.script[idx].kind != 'a' {
			panic("engine: non-deterministic re-execution (assert)")
		}
		e.events = append(e.events, e.script[idx])
		return
	}
	e.events = append(e.events, event{kind: 'a', exact: true})
	o.Paths++
	if c.IsConst() && c.V == 1 {
		return
	}
	o.trivialOnly = false
	t0 := time.Now()
	var res SatResult
	var model map[string]*big.Int
	vars := e.inputVars()
	if c.IsConst() {
		// false on a feasible path: any model of the path condition is a counterexample
		var d time.Duration
		res, model, d = e.inc.CheckInc(e.pc, nil, vars, true)
		_ = d
	} else {
		res, model, _ = e.one.CheckOneShot(e.pc, e.P.Not(c), vars, true)
	}
	d := time.Since(t0)
	o.stats.add(res, d)
	e.total.add(res, d)
	if e.Cfg.Verbose {
		e.log("  assert %-28s path %-4d %-7s %6.2fs  (pool %d)", id, e.paths, res, d.Seconds(), e.P.Size())
	}
	switch res {
	case Unsat:
	case Sat:
		o.candCount++
		if o.cand == nil {
			a, pretty := e.assignment(model)
			o.cand = &candidate{assign: a, model: pretty, ideal: e.idealHash, repls: sortedKeys(e.replOnPath)}
		}
	default:
		why := e.one.LastErr
		if c.IsConst() {
			why = e.inc.LastErr
		}
		if why == "" {
			why = "solver returned unknown"
		}
		o.unknown = why
	}
}

// Reach records that a reachability marker is hit on a feasible path.
func (e *Explorer) Reach(id string) {
	if e.concrete {
		e.trace = append(e.trace, TraceEvent{K: "reach", ID: id})
		return
	}
	o := e.getObl("reach", id)
	idx := len(e.events)
	if idx < len(e.script) {
		if e.script[idx].kind != 'r' {
			panic("engine: non-deterministic re-execution (reach)")
		}
		e.events = append(e.events, e.script[idx])
		return
	}
	e.events = append(e.events, event{kind: 'r', exact: true})
	o.Paths++
	if o.reached {
		return
	}
	t0 := time.Now()
	res, model, _ := e.inc.CheckInc(e.pc, nil, e.inputVars(), true)
	d := time.Since(t0)
	o.stats.add(res, d)
	e.total.add(res, d)
	switch res {
	case Sat:
		o.reached = true
		_, pretty := e.assignment(model)
		o.Model = pretty
	case Unknown:
		o.unknown = "solver returned unknown for the reachability witness"
	}
}

func (e *Explorer) Observe(id string, v *Term) {
	if e.concrete {
		if !v.IsConst() {
			panic("engine: symbolic value in concrete mode")
		}
		e.trace = append(e.trace, TraceEvent{K: "observe", ID: id, V: v.U64()})
	}
}

// ---------- path loop ----------

// nextScript computes the decision script of the next unexplored path.
func (e *Explorer) nextScript() bool {
	evs := e.events
	for i := len(evs) - 1; i >= 0; i-- {
		ev := evs[i]
		switch ev.kind {
		case 'd':
			if ev.k+1 < ev.n && !ev.forced && !ev.closed {
				s := append([]event{}, evs[:i]...)
				s = append(s, event{kind: 'd', k: ev.k + 1, n: ev.n, exact: ev.altOK})
				e.script = s
				return true
			}
		case 'v':
			s := append([]event{}, evs[:i]...)
			s = append(s, event{kind: 'v', exact: false, tried: ev.tried})
			e.script = s
			return true
		}
	}
	return false
}

// panicObligation registers a feasible uncaught panic.
func (e *Explorer) panicObligation(gp *goPanic) {
	if gp.blocked {
		// not a Go panic: the harness goroutine would block forever. Natively that is a hang, so
		// it cannot be confirmed by replay; it is never a success either.
		o := e.getObl("panic", "blocked:"+gp.fn)
		o.trivialOnly = false
		o.Paths++
		o.unknown = "a feasible path ends blocked forever (" + gp.msg + "); the harness does not recover verifBlocked and a hang cannot be replayed natively"
		return
	}
	o := e.getObl("panic", "panic:"+gp.fn)
	o.trivialOnly = false
	o.Paths++
	o.Reason = gp.msg
	if o.cand != nil {
		o.candCount++
		return
	}
	t0 := time.Now()
	res, model, _ := e.inc.CheckInc(e.pc, nil, e.inputVars(), true)
	d := time.Since(t0)
	o.stats.add(res, d)
	e.total.add(res, d)
	switch res {
	case Sat:
		a, pretty := e.assignment(model)
		o.cand = &candidate{assign: a, model: pretty, expectP: true, ideal: e.idealHash, repls: sortedKeys(e.replOnPath)}
		o.candCount++
	case Unknown:
		o.unknown = "solver returned unknown for the model of a panicking path"
	case Unsat:
		// the path condition is infeasible after all (only possible after an earlier unknown)
	}
}

// runPath executes the harness once under the current script.
func (e *Explorer) runPath(fn *ssa.Function) (end string) {
	e.resetPath()
	e.In.resetPath()
	defer func() {
		if r := recover(); r != nil {
			switch x := r.(type) {
			case *abort:
				switch x.kind {
				case abDrop:
					end = "drop"
				case abNotEncodable:
					e.neFlag = x.reason
					end = "not-encodable"
				case abBudget:
					e.incFlag = x.reason
					end = "budget"
				}
			case *goPanic:
				if !e.concrete {
					e.panicObligation(x)
				}
				end = "panic:" + x.msg
			default:
				panic(r)
			}
		}
	}()
	e.In.callSSA(nil, fn, nil, nil)
	return "ok"
}

// Explore runs all paths of one harness and fills in obligation statuses (before replay).
func (e *Explorer) Explore(fn *ssa.Function, preIDs []preID) {
	for _, p := range preIDs {
		e.getObl(p.kind, p.id)
	}
	e.script = nil
	for {
		if e.paths >= e.Cfg.MaxPaths {
			e.incFlag = fmt.Sprintf("path bound %d exceeded", e.Cfg.MaxPaths)
			break
		}
		e.paths++
		end := e.runPath(fn)
		if end == "drop" {
			e.dropped++
		}
		for k := range e.replOnPath {
			if e.replAll == nil {
				e.replAll = map[string]bool{}
			}
			e.replAll[k] = true
		}
		if e.Cfg.Verbose {
			e.log("  path %d: %s (%d events, %d steps)", e.paths, end, len(e.events), e.In.steps)
		}
		if end == "not-encodable" || end == "budget" {
			break
		}
		if !e.nextScript() {
			break
		}
	}
}

type preID struct{ kind, id string }

// finish assigns final statuses. Candidates must have been replayed before (cand.confirmed).
func (e *Explorer) finish(confirm func(o *Obligation) (confirmed bool, replayPath string, note string)) []*Obligation {
	var out []*Obligation
	vacuousReach := ""
	for _, key := range e.order {
		o := e.obl[key]
		if o.kind == "reach" && !o.reached && e.neFlag == "" && e.incFlag == "" && o.unknown == "" {
			vacuousReach = o.ID
		}
	}
	for _, key := range e.order {
		o := e.obl[key]
		o.Queries = map[string]int{"sat": o.stats.Sat, "unsat": o.stats.Unsat, "unknown": o.stats.Unknown}
		o.SolverS = o.stats.Seconds
		switch {
		case o.cand != nil && o.ghost:
			// the native twin runs the real functions: ghost state written by contracts does not
			// exist there, so its evaluation of this condition means nothing. Never a VIOLATION,
			// never a success.
			o.Model = o.cand.model
			o.Status = "inconclusive"
			o.Reason = "counterexample found for an obligation over contract ghost state (verifAssertGhost); it cannot be confirmed by the native twin, which runs the real functions"
			if len(o.cand.repls) > 0 {
				o.Reason += " [contracts on the path: " + strings.Join(o.cand.repls, "; ") + "]"
			}
		case o.cand != nil:
			ok, path, note := confirm(o)
			o.Model = o.cand.model
			if path != "" {
				p := path
				o.Replay = &p
			}
			switch {
			case ok:
				o.Status = "violated"
				o.Reason = strings.TrimSpace(o.Reason + " " + note)
			case e.Cfg.NoReplay:
				o.Status = "inconclusive"
				o.Reason = "counterexample found but native replay disabled"
			case o.cand.skipped != "":
				o.Status = "inconclusive"
				o.Reason = "counterexample found; the native twin declined to replay it (verifSkipReplay: " + o.cand.skipped + ")"
			case o.cand.ideal && !o.cand.infra:
				// the solver chose values for uninterpreted hash outputs; the real hash need not
				// realise them, so a failed replay is not an engine defect - and not a violation
				o.Status = "inconclusive"
				o.Reason = "counterexample exists only under the idealised (uninterpreted) hash and did not reproduce with the real hash: " + note
			default:
				o.Status = "inconclusive"
				o.mismatch = true
				o.Reason = "ENGINE-MISMATCH: solver counterexample did not reproduce natively: " + note
				if len(o.cand.repls) > 0 {
					o.Reason += " [the path used harness contracts, whose results the real functions need not be able to produce: " + strings.Join(o.cand.repls, "; ") + "]"
				}
			}
		case o.kind == "reach" && o.reached:
			o.Status = "valid"
			o.Reason = "reached on a feasible path (witness in model)"
		case e.neFlag != "":
			o.Status = "not-encodable"
			o.Reason = e.neFlag
		case o.unknown != "":
			o.Status = "inconclusive"
			o.Reason = o.unknown
		case e.incFlag != "":
			o.Status = "inconclusive"
			o.Reason = e.incFlag
		case o.kind == "reach":
			if o.reached {
				o.Status = "valid"
				o.Reason = "reached on a feasible path (witness in model)"
			} else {
				o.Status = "vacuous"
				o.Reason = "no feasible path hits this marker"
			}
		case o.Paths == 0:
			o.Status = "vacuous"
			o.Reason = "assertion is never reached on a feasible path"
		case vacuousReach != "":
			o.Status = "vacuous"
			o.Reason = "harness reach marker " + vacuousReach + " is not hit on any feasible path"
		default:
			o.Status = "valid"
			if o.trivialOnly {
				o.Reason = "condition folded to true syntactically on every path"
			}
		}
		out = append(out, o)
	}
	return out
}

// scanIDs statically collects the verifAssert / verifReach identifiers of a harness (following
// calls into other functions defined in harness files).
func scanIDs(prog *ssa.Program, fn *ssa.Function) []preID {
	var out []preID
	seen := map[*ssa.Function]bool{}
	seenID := map[string]bool{}
	var walk func(f *ssa.Function)
	walk = func(f *ssa.Function) {
		if f == nil || seen[f] || f.Blocks == nil {
			return
		}
		seen[f] = true
		for _, af := range f.AnonFuncs {
			walk(af)
		}
		for _, b := range f.Blocks {
			for _, ins := range b.Instrs {
				var c *ssa.CallCommon
				switch x := ins.(type) {
				case *ssa.Call:
					c = x.Common()
				case *ssa.Defer:
					c = x.Common()
				}
				if c == nil {
					continue
				}
				callee := c.StaticCallee()
				if callee == nil {
					continue
				}
				switch callee.Name() {
				case "verifAssert", "verifAssertGhost", "verifReach":
					if k, ok := c.Args[0].(*ssa.Const); ok && k.Value != nil {
						kind := "assert"
						if callee.Name() == "verifReach" {
							kind = "reach"
						}
						id := strings.Trim(k.Value.ExactString(), "\"")
						if !seenID[kind+id] {
							seenID[kind+id] = true
							out = append(out, preID{kind, id})
						}
					}
				default:
					if callee.Pkg == fn.Pkg && callee.Blocks != nil {
						file := prog.Fset.Position(callee.Pos()).Filename
						if strings.Contains(file, "zz_verif_") {
							walk(callee)
						}
					}
				}
			}
		}
	}
	walk(fn)
	return out
}

func sortedKeys(m map[string]bool) []string {
	var ks []string
	for k := range m {
		ks = append(ks, k)
	}
	sort.Strings(ks)
	return ks
}
