package ssasym

import "math/big"

// Bit-wiring normal form.
//
// A bit-vector term whose every bit is either a constant or one particular bit of an "atom"
// (a variable or a term that is not itself a wiring) is a pure wiring. Shifts by constants,
// masks, extraction, concatenation, zero extension and OR/XOR/AND of wirings with disjoint
// support all produce wirings. Wirings are rebuilt in a canonical shape (zero-extension of a
// concatenation of maximal extracts and constants), so two different shuffle networks that
// implement the same permutation of bits become the *same* hash-consed term and equalities
// between them fold syntactically. WireNormalForm=false disables the rewriting (used to
// cross-check the solver-only route).
var WireNormalForm = true

type wire struct {
	src *Term // nil: constant bit
	bit int   // bit index in src, or the constant 0/1
}

func isShuffle(t *Term) bool {
	switch t.Op {
	case OpConst, OpVar, OpExtract, OpConcat, OpZExt:
		return true
	}
	return false
}

// wireLike: terms whose wires() is worth inspecting (shuffles and bitwise gate networks).
func wireLike(t *Term) bool {
	switch t.Op {
	case OpAnd, OpOr, OpXor, OpNot:
		return true
	}
	return isShuffle(t)
}

// wires returns the per-bit description of t (bit 0 first). Cached.
func (p *Pool) wires(t *Term) []wire {
	if t.wr != nil {
		return t.wr
	}
	w := make([]wire, t.W)
	switch t.Op {
	case OpConst:
		if t.Big != nil {
			for i := range w {
				w[i] = wire{nil, int(t.Big.Bit(i))}
			}
		} else {
			for i := range w {
				w[i] = wire{nil, int(t.V >> uint(i) & 1)}
			}
		}
	case OpExtract:
		copy(w, p.wires(t.A[0])[t.J:t.I+1])
	case OpConcat:
		lo := p.wires(t.A[1])
		copy(w, lo)
		copy(w[len(lo):], p.wires(t.A[0]))
	case OpZExt:
		in := p.wires(t.A[0])
		copy(w, in)
		for i := len(in); i < len(w); i++ {
			w[i] = wire{nil, 0}
		}
	case OpAnd, OpOr, OpXor:
		// a genuine gate network, but individual bits may still be wires or constants
		wa, wb := p.wires(t.A[0]), p.wires(t.A[1])
		for i := range w {
			if r, ok := bitOp(t.Op, wa[i], wb[i]); ok {
				w[i] = r
			} else {
				w[i] = wire{t, i}
			}
		}
	case OpNot:
		wa := p.wires(t.A[0])
		for i := range w {
			if wa[i].src == nil {
				w[i] = wire{nil, wa[i].bit ^ 1}
			} else {
				w[i] = wire{t, i}
			}
		}
	default:
		for i := range w {
			w[i] = wire{t, i}
		}
	}
	t.wr = w
	return w
}

// bitOp evaluates one bit of a bitwise operator on wires; ok=false if it is a genuine gate.
func bitOp(op Op, x, y wire) (wire, bool) {
	xc, yc := x.src == nil, y.src == nil
	switch op {
	case OpAnd:
		switch {
		case xc && x.bit == 0, yc && y.bit == 0:
			return wire{nil, 0}, true
		case xc:
			return y, true
		case yc:
			return x, true
		case x == y:
			return x, true
		}
	case OpOr:
		switch {
		case xc && x.bit == 1, yc && y.bit == 1:
			return wire{nil, 1}, true
		case xc:
			return y, true
		case yc:
			return x, true
		case x == y:
			return x, true
		}
	case OpXor:
		switch {
		case xc && yc:
			return wire{nil, x.bit ^ y.bit}, true
		case xc && x.bit == 0:
			return y, true
		case yc && y.bit == 0:
			return x, true
		case !xc && !yc && x == y:
			return wire{nil, 0}, true
		}
	}
	return wire{}, false
}

func (p *Pool) rawExtract(a *Term, hi, lo int) *Term {
	if lo == 0 && hi == a.W-1 {
		return a
	}
	return p.intern(&Term{Op: OpExtract, W: hi - lo + 1, A: []*Term{a}, I: hi, J: lo})
}

// canonical rebuilds a wiring in normal form.
func (p *Pool) canonical(ws []wire) *Term {
	n := len(ws)
	top := n
	for top > 0 && ws[top-1].src == nil && ws[top-1].bit == 0 {
		top--
	}
	if top == 0 {
		return p.ConstBig(n, new(big.Int))
	}
	var acc *Term
	i := 0
	for i < top {
		var seg *Term
		j := i + 1
		if ws[i].src == nil {
			for j < top && ws[j].src == nil {
				j++
			}
			v := new(big.Int)
			for k := i; k < j; k++ {
				if ws[k].bit == 1 {
					v.SetBit(v, k-i, 1)
				}
			}
			seg = p.ConstBig(j-i, v)
		} else {
			for j < top && ws[j].src == ws[i].src && ws[j].bit == ws[i].bit+(j-i) {
				j++
			}
			seg = p.rawExtract(ws[i].src, ws[i].bit+(j-i)-1, ws[i].bit)
		}
		if acc == nil {
			acc = seg
		} else {
			acc = p.intern(&Term{Op: OpConcat, W: acc.W + seg.W, A: []*Term{seg, acc}})
		}
		i = j
	}
	if top < n {
		acc = p.intern(&Term{Op: OpZExt, W: n, A: []*Term{acc}})
	}
	return acc
}

// wireBin tries to compute a bitwise operation as a wiring; nil if some bit is a genuine gate.
func (p *Pool) wireBin(op Op, a, b *Term) *Term {
	if !WireNormalForm || a.W == 0 {
		return nil
	}
	if !(a.Op == OpConst || b.Op == OpConst || (wireLike(a) && wireLike(b))) {
		return nil
	}
	wa, wb := p.wires(a), p.wires(b)
	out := make([]wire, a.W)
	for i := range out {
		r, ok := bitOp(op, wa[i], wb[i])
		if !ok {
			return nil
		}
		out[i] = r
	}
	return p.canonical(out)
}

// wireShift computes a shift by a constant as a wiring.
func (p *Pool) wireShift(op Op, a *Term, k int) *Term {
	if !WireNormalForm {
		return nil
	}
	wa := p.wires(a)
	n := a.W
	out := make([]wire, n)
	for i := range out {
		switch op {
		case OpShl:
			if i < k {
				out[i] = wire{nil, 0}
			} else {
				out[i] = wa[i-k]
			}
		case OpLShr:
			if i+k >= n {
				out[i] = wire{nil, 0}
			} else {
				out[i] = wa[i+k]
			}
		case OpAShr:
			if i+k >= n {
				out[i] = wa[n-1]
			} else {
				out[i] = wa[i+k]
			}
		}
	}
	return p.canonical(out)
}
