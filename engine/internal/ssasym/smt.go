package ssasym

import (
	"bufio"
	"fmt"
	"io"
	"math/big"
	"os"
	"os/exec"
	"strings"
	"time"
)

// SatResult is the three-valued solver answer. Anything that is not literally `sat` or `unsat`
// (unknown, timeout, an `(error` line, a dead process) is Unknown.
type SatResult int

const (
	Unknown SatResult = iota
	Sat
	Unsat
)

func (r SatResult) String() string {
	switch r {
	case Sat:
		return "sat"
	case Unsat:
		return "unsat"
	}
	return "unknown"
}

// QueryStats counts solver answers and time.
type QueryStats struct {
	Sat, Unsat, Unknown int
	Seconds             float64
}

func (q *QueryStats) add(r SatResult, d time.Duration) {
	switch r {
	case Sat:
		q.Sat++
	case Unsat:
		q.Unsat++
	default:
		q.Unknown++
	}
	q.Seconds += d.Seconds()
}

// Solver drives one long-lived SMT solver process over stdin/stdout.
//
// Two usage styles share the type:
//   - incremental: Sync(pc) keeps a stack of asserted path-condition conjuncts (one push level
//     each, shared prefixes are kept across paths), CheckInc(q) does push/assert/check/pop;
//   - one-shot: CheckOneShot(pc, q) does (reset), re-emits the cone of the query, and a single
//     check-sat, so that the solver's non-incremental pipeline is used for the hard obligations.
type Solver struct {
	Kind      string // z3 | z3-new | cvc5
	TimeoutMS int
	LogW      io.Writer // optional transcript
	LastErr   string

	cmd   *exec.Cmd
	in    io.WriteCloser
	out   *bufio.Reader
	lines chan string
	dead  bool

	// incremental state
	asserted []*Term
	levels   []map[int]bool // per push level: IDs (terms) defined at that level
	declared map[int]int    // term ID -> level at which it is defined
	buf      strings.Builder
}

func NewSolver(kind string, timeoutMS int) *Solver {
	return &Solver{Kind: kind, TimeoutMS: timeoutMS}
}

func (s *Solver) argv() []string {
	switch s.Kind {
	case "z3-new":
		return []string{"z3-new", "-in"}
	case "cvc5":
		a := []string{"cvc5", "--incremental", "--produce-models", "--lang=smt2"}
		if s.TimeoutMS > 0 {
			a = append(a, fmt.Sprintf("--tlimit-per=%d", s.TimeoutMS))
		}
		return a
	default:
		return []string{"/usr/bin/z3", "-in"}
	}
}

func (s *Solver) start() error {
	av := s.argv()
	cmd := exec.Command(av[0], av[1:]...)
	in, err := cmd.StdinPipe()
	if err != nil {
		return err
	}
	outp, err := cmd.StdoutPipe()
	if err != nil {
		return err
	}
	cmd.Stderr = cmd.Stdout
	if err := cmd.Start(); err != nil {
		return err
	}
	s.cmd, s.in, s.out = cmd, in, bufio.NewReaderSize(outp, 1<<20)
	s.lines = make(chan string, 1024)
	s.dead = false
	go func(r *bufio.Reader, ch chan string) {
		for {
			l, err := r.ReadString('\n')
			if l != "" {
				ch <- strings.TrimRight(l, "\r\n")
			}
			if err != nil {
				close(ch)
				return
			}
		}
	}(s.out, s.lines)
	s.resetState()
	s.prelude()
	return nil
}

func (s *Solver) resetState() {
	s.asserted = nil
	s.levels = []map[int]bool{{}}
	s.declared = map[int]int{}
}

func (s *Solver) prelude() {
	if s.Kind == "cvc5" {
		s.send("(set-logic ALL)\n")
	} else {
		if s.TimeoutMS > 0 {
			s.send(fmt.Sprintf("(set-option :timeout %d)\n", s.TimeoutMS))
		}
	}
}

// Close terminates the process.
func (s *Solver) Close() {
	if s.cmd != nil && !s.dead {
		s.in.Close()
		done := make(chan struct{})
		go func() { s.cmd.Wait(); close(done) }()
		select {
		case <-done:
		case <-time.After(500 * time.Millisecond):
			s.cmd.Process.Kill()
			<-done
		}
	}
	s.cmd = nil
	s.dead = true
}

func (s *Solver) kill() {
	if s.cmd != nil {
		s.cmd.Process.Kill()
		go s.cmd.Wait()
	}
	s.cmd = nil
	s.dead = true
}

func (s *Solver) ensure() error {
	if s.cmd == nil || s.dead {
		return s.start()
	}
	return nil
}

func (s *Solver) send(text string) {
	if s.LogW != nil {
		io.WriteString(s.LogW, text)
	}
	if _, err := io.WriteString(s.in, text); err != nil {
		s.dead = true
		s.LastErr = "write to solver: " + err.Error()
	}
}

// readLine waits for one non-empty output line.
func (s *Solver) readLine(limit time.Duration) (string, bool) {
	var timer <-chan time.Time
	if limit > 0 {
		timer = time.After(limit)
	}
	for {
		select {
		case l, ok := <-s.lines:
			if !ok {
				s.dead = true
				s.LastErr = "solver process ended"
				return "", false
			}
			if strings.TrimSpace(l) == "" {
				continue
			}
			if s.LogW != nil {
				fmt.Fprintf(s.LogW, "; <- %s\n", l)
			}
			return l, true
		case <-timer:
			s.LastErr = "solver watchdog timeout"
			s.kill()
			return "", false
		}
	}
}

func (s *Solver) watchdog() time.Duration {
	if s.TimeoutMS <= 0 {
		return 0
	}
	return time.Duration(s.TimeoutMS)*time.Millisecond + 10*time.Second
}

// define emits declarations/definitions for every not-yet-defined node in the cone of t into
// s.buf, registering them at the current push level. Iterative post-order.
func (s *Solver) define(t *Term) {
	lvl := len(s.levels) - 1
	type item struct {
		t    *Term
		next int
	}
	stack := []item{{t, 0}}
	for len(stack) > 0 {
		it := &stack[len(stack)-1]
		n := it.t
		if n.Op == OpConst {
			stack = stack[:len(stack)-1]
			continue
		}
		if _, ok := s.declared[n.ID]; ok {
			stack = stack[:len(stack)-1]
			continue
		}
		if it.next < len(n.A) {
			c := n.A[it.next]
			it.next++
			if c.Op != OpConst {
				if _, ok := s.declared[c.ID]; !ok {
					stack = append(stack, item{c, 0})
				}
			}
			continue
		}
		if n.Op == OpVar {
			fmt.Fprintf(&s.buf, "(declare-const %s %s)\n", n.Name, sortSMT(n.W))
		} else {
			fmt.Fprintf(&s.buf, "(define-fun t%d () %s %s)\n", n.ID, sortSMT(n.W), body(n))
		}
		s.declared[n.ID] = lvl
		s.levels[lvl][n.ID] = true
		stack = stack[:len(stack)-1]
	}
}

func (s *Solver) flush() {
	if s.buf.Len() > 0 {
		s.send(s.buf.String())
		s.buf.Reset()
	}
}

func (s *Solver) push() {
	s.buf.WriteString("(push 1)\n")
	s.levels = append(s.levels, map[int]bool{})
}

func (s *Solver) pop() {
	s.buf.WriteString("(pop 1)\n")
	top := s.levels[len(s.levels)-1]
	for id := range top {
		delete(s.declared, id)
	}
	s.levels = s.levels[:len(s.levels)-1]
}

// Sync makes the incremental assertion stack equal to pc (keeping the common prefix).
func (s *Solver) Sync(pc []*Term) error {
	if err := s.ensure(); err != nil {
		return err
	}
	k := 0
	for k < len(pc) && k < len(s.asserted) && pc[k] == s.asserted[k] {
		k++
	}
	for len(s.asserted) > k {
		s.pop()
		s.asserted = s.asserted[:len(s.asserted)-1]
	}
	for _, c := range pc[k:] {
		s.push()
		s.define(c)
		fmt.Fprintf(&s.buf, "(assert %s)\n", ref(c))
		s.asserted = append(s.asserted, c)
	}
	return nil
}

func (s *Solver) classify(line string, ok bool) SatResult {
	if !ok {
		return Unknown
	}
	switch strings.TrimSpace(line) {
	case "sat":
		return Sat
	case "unsat":
		return Unsat
	case "unknown":
		return Unknown
	}
	// (error ...), timeout messages, anything else: inconclusive, and the pipe may be out of
	// sync, so the process is discarded.
	s.LastErr = "solver said: " + line
	s.kill()
	return Unknown
}

// CheckInc decides pc /\ q incrementally. If wantModel and the answer is sat, the values of
// vars are returned.
func (s *Solver) CheckInc(pc []*Term, q *Term, vars []*Term, wantModel bool) (SatResult, map[string]*big.Int, time.Duration) {
	t0 := time.Now()
	if err := s.Sync(pc); err != nil {
		s.LastErr = err.Error()
		return Unknown, nil, time.Since(t0)
	}
	s.push()
	if q != nil {
		s.define(q)
		fmt.Fprintf(&s.buf, "(assert %s)\n", ref(q))
	}
	if wantModel {
		for _, v := range vars {
			s.define(v)
		}
	}
	s.buf.WriteString("(check-sat)\n")
	s.flush()
	line, ok := s.readLine(s.watchdog())
	res := s.classify(line, ok)
	var model map[string]*big.Int
	if res == Sat && wantModel {
		model, ok = s.getValues(vars)
		if !ok {
			res = Unknown
		}
	}
	if !s.dead {
		s.pop()
		s.flush()
	} else {
		s.resetState()
	}
	return res, model, time.Since(t0)
}

// CheckOneShot decides pc /\ q from a clean solver state.
func (s *Solver) CheckOneShot(pc []*Term, q *Term, vars []*Term, wantModel bool) (SatResult, map[string]*big.Int, time.Duration) {
	t0 := time.Now()
	if err := s.ensure(); err != nil {
		s.LastErr = err.Error()
		return Unknown, nil, time.Since(t0)
	}
	s.resetState()
	s.buf.WriteString("(reset)\n")
	s.flush()
	s.prelude()
	for _, c := range pc {
		s.define(c)
		fmt.Fprintf(&s.buf, "(assert %s)\n", ref(c))
	}
	if q != nil {
		s.define(q)
		fmt.Fprintf(&s.buf, "(assert %s)\n", ref(q))
	}
	if wantModel {
		for _, v := range vars {
			s.define(v)
		}
	}
	s.buf.WriteString("(check-sat)\n")
	s.flush()
	line, ok := s.readLine(s.watchdog())
	res := s.classify(line, ok)
	var model map[string]*big.Int
	if res == Sat && wantModel {
		model, ok = s.getValues(vars)
		if !ok {
			res = Unknown
		}
	}
	if s.dead {
		s.resetState()
	}
	return res, model, time.Since(t0)
}

// getValues issues (get-value ...) for the variables and parses the reply.
func (s *Solver) getValues(vars []*Term) (map[string]*big.Int, bool) {
	model := map[string]*big.Int{}
	if len(vars) == 0 {
		return model, true
	}
	const chunk = 256
	for i := 0; i < len(vars); i += chunk {
		j := i + chunk
		if j > len(vars) {
			j = len(vars)
		}
		var sb strings.Builder
		sb.WriteString("(get-value (")
		for _, v := range vars[i:j] {
			sb.WriteString(ref(v))
			sb.WriteByte(' ')
		}
		sb.WriteString("))\n")
		s.send(sb.String())
		// read until parentheses balance
		var text strings.Builder
		depth, started := 0, false
		for {
			l, ok := s.readLine(30 * time.Second)
			if !ok {
				return nil, false
			}
			if strings.HasPrefix(strings.TrimSpace(l), "(error") {
				s.LastErr = "solver said: " + l
				s.kill()
				return nil, false
			}
			text.WriteString(l)
			text.WriteByte(' ')
			for _, ch := range l {
				if ch == '(' {
					depth++
					started = true
				} else if ch == ')' {
					depth--
				}
			}
			if started && depth <= 0 {
				break
			}
		}
		if !parseValues(text.String(), model) {
			s.LastErr = "cannot parse model: " + text.String()
			return nil, false
		}
	}
	for _, v := range vars {
		if v.Op == OpConst {
			continue
		}
		if _, ok := model[ref(v)]; !ok {
			s.LastErr = "model lacks " + ref(v)
			return nil, false
		}
	}
	return model, true
}

// parseValues reads "((x #x0f) (y true) (z (_ bv5 8)))".
func parseValues(text string, out map[string]*big.Int) bool {
	toks := tokenize(text)
	i := 0
	if i >= len(toks) || toks[i] != "(" {
		return false
	}
	i++
	for i < len(toks) && toks[i] == "(" {
		i++
		if i >= len(toks) {
			return false
		}
		name := toks[i]
		i++
		if i >= len(toks) {
			return false
		}
		var val *big.Int
		if toks[i] == "(" {
			// (_ bvN w)
			if i+4 < len(toks) && toks[i+1] == "_" && strings.HasPrefix(toks[i+2], "bv") {
				v, ok := new(big.Int).SetString(toks[i+2][2:], 10)
				if !ok {
					return false
				}
				val = v
				i += 5
			} else {
				return false
			}
		} else {
			tk := toks[i]
			i++
			switch {
			case tk == "true":
				val = big.NewInt(1)
			case tk == "false":
				val = big.NewInt(0)
			case strings.HasPrefix(tk, "#x"):
				v, ok := new(big.Int).SetString(tk[2:], 16)
				if !ok {
					return false
				}
				val = v
			case strings.HasPrefix(tk, "#b"):
				v, ok := new(big.Int).SetString(tk[2:], 2)
				if !ok {
					return false
				}
				val = v
			default:
				return false
			}
		}
		if i >= len(toks) || toks[i] != ")" {
			return false
		}
		i++
		out[name] = val
	}
	return i < len(toks) && toks[i] == ")"
}

func tokenize(s string) []string {
	var toks []string
	cur := strings.Builder{}
	flush := func() {
		if cur.Len() > 0 {
			toks = append(toks, cur.String())
			cur.Reset()
		}
	}
	for _, ch := range s {
		switch ch {
		case '(', ')':
			flush()
			toks = append(toks, string(ch))
		case ' ', '\t', '\n', '\r':
			flush()
		default:
			cur.WriteRune(ch)
		}
	}
	flush()
	return toks
}

// openLog opens a transcript file (used by the CLI's -smt-log option).
func openLog(path string) (io.WriteCloser, error) {
	return os.Create(path)
}
