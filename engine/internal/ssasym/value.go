package ssasym

import (
	"fmt"
	"go/types"
	"strings"

	"golang.org/x/tools/go/ssa"
)

// Value is the interpreter's universe:
//
//	*Term      bool and integer scalars (Bool / bit-vector of the Go width), concrete or symbolic
//	StrV       string (concrete length, bytes possibly symbolic)
//	ArrayV     array: slice of element slots (copied on load/store)
//	StructV    struct: field slots
//	PtrV       pointer: a Go pointer to a slot, or a symbolic-index view into a run of slots
//	SliceV     slice: Go slice of slots (real aliasing, concrete len/cap)
//	*MapV      map, insertion ordered, keys may be symbolic (maps.go)
//	IfaceV     interface value with concrete dynamic type
//	*ClosureV  function value (also plain functions and bound builtins)
//	TupleV     multi-value result
//	*NativeV   engine-native object (reflect.Type stand-in, ...)
//	Poison     result of an unsupported operation during tolerant (package init) execution
type Value interface{}

type StrV struct {
	S      string  // valid when Sym == nil
	Sym    []*Term // 8-bit terms when any byte is symbolic
	Opaque bool    // produced by a formatting stub: content and length unknown, must not be inspected
	// NonEmpty (only with Opaque): the string is known to have at least one byte (a literal
	// character of the format, or a non-empty operand of a concatenation), so s == "" is decided.
	NonEmpty bool
}

// knownNonEmpty: the string certainly has length > 0.
func (s StrV) knownNonEmpty() bool {
	if s.Opaque {
		return s.NonEmpty
	}
	return s.Len() > 0
}

type ArrayV []Value
type StructV []Value
type TupleV []Value

type symIdx struct {
	elems []Value // the run of slots indexed
	idx   *Term   // 64-bit, path condition guarantees idx < len(elems)
}

type PtrV struct {
	P   *Value
	Sym *symIdx
	// Obj tags pointers to engine-native objects (none yet).
}

type SliceV struct {
	E []Value // nil for the nil slice
	// Grown: the backing array was allocated by append growth, so its capacity is
	// implementation-defined; cap() and reslicing beyond len are then not encodable.
	Grown bool
}

type IfaceV struct {
	T types.Type // nil for the nil interface
	V Value
}

type ClosureV struct {
	Fn      *ssa.Function
	Env     []Value
	Builtin *ssa.Builtin
}

type NativeV struct {
	Kind string
	Type types.Type
	Data interface{}
}

type Poison struct{ Why string }

// rangeIter is the state of a Range over a map or string.
type rangeIter struct {
	isMap bool
	m     *MapV
	ents  []*mapEntry
	str   StrV
	pos   int
}

func (s StrV) Len() int {
	if s.Sym != nil {
		return len(s.Sym)
	}
	return len(s.S)
}

func (in *Interp) strBytes(s StrV) []*Term {
	if s.Opaque {
		panic(&abort{abNotEncodable, "content of a formatted (opaque) string is inspected"})
	}
	if s.Sym != nil {
		return s.Sym
	}
	out := make([]*Term, len(s.S))
	for i := 0; i < len(s.S); i++ {
		out[i] = in.P.Const(8, uint64(s.S[i]))
	}
	return out
}

func mkStr(bytes []*Term) StrV {
	conc := true
	for _, b := range bytes {
		if !b.IsConst() {
			conc = false
			break
		}
	}
	if conc {
		var sb strings.Builder
		for _, b := range bytes {
			sb.WriteByte(byte(b.V))
		}
		return StrV{S: sb.String()}
	}
	if bytes == nil {
		bytes = []*Term{}
	}
	return StrV{Sym: bytes}
}

// typeWidth gives the bit width of an integer-like basic type (0 if not an integer).
func typeWidth(t types.Type) int {
	b, ok := t.Underlying().(*types.Basic)
	if !ok {
		return 0
	}
	switch b.Kind() {
	case types.Int8, types.Uint8:
		return 8
	case types.Int16, types.Uint16:
		return 16
	case types.Int32, types.Uint32:
		return 32
	case types.Int64, types.Uint64, types.Int, types.Uint, types.Uintptr, types.UntypedInt, types.UntypedRune:
		return 64
	}
	return 0
}

func isSignedType(t types.Type) bool {
	b, ok := t.Underlying().(*types.Basic)
	if !ok {
		return false
	}
	return b.Info()&types.IsInteger != 0 && b.Info()&types.IsUnsigned == 0
}

func isBoolType(t types.Type) bool {
	b, ok := t.Underlying().(*types.Basic)
	return ok && b.Info()&types.IsBoolean != 0
}

func isStringType(t types.Type) bool {
	b, ok := t.Underlying().(*types.Basic)
	return ok && b.Info()&types.IsString != 0
}

func isFloatOrComplex(t types.Type) bool {
	b, ok := t.Underlying().(*types.Basic)
	return ok && b.Info()&(types.IsFloat|types.IsComplex) != 0
}

// zero builds the zero value of a type.
func (in *Interp) zero(t types.Type) Value {
	switch u := t.Underlying().(type) {
	case *types.Basic:
		switch {
		case u.Info()&types.IsBoolean != 0:
			return in.P.False
		case u.Info()&types.IsInteger != 0:
			return in.P.Const(typeWidth(u), 0)
		case u.Info()&types.IsString != 0:
			return StrV{}
		case u.Kind() == types.UnsafePointer:
			return PtrV{}
		case u.Kind() == types.UntypedNil:
			return nil
		}
		return Poison{"zero value of unsupported basic type " + u.String()}
	case *types.Pointer:
		return PtrV{}
	case *types.Slice:
		return SliceV{}
	case *types.Map:
		return (*MapV)(nil)
	case *types.Interface:
		return IfaceV{}
	case *types.Signature:
		return (*ClosureV)(nil)
	case *types.Chan:
		return (*ChanV)(nil)
	case *types.Struct:
		s := make(StructV, u.NumFields())
		for i := range s {
			s[i] = in.zero(u.Field(i).Type())
		}
		return s
	case *types.Array:
		a := make(ArrayV, int(u.Len()))
		if len(a) > 0 {
			et := u.Elem()
			if typeWidth(et) > 0 || isBoolType(et) {
				z := in.zero(et)
				for i := range a {
					a[i] = z
				}
			} else {
				for i := range a {
					a[i] = in.zero(et)
				}
			}
		}
		return a
	case *types.Tuple:
		tu := make(TupleV, u.Len())
		for i := range tu {
			tu[i] = in.zero(u.At(i).Type())
		}
		return tu
	}
	return Poison{"zero value of unsupported type " + t.String()}
}

// copyVal deep-copies arrays and structs (value semantics); everything else is immutable or a
// reference.
func copyVal(v Value) Value {
	switch x := v.(type) {
	case ArrayV:
		c := make(ArrayV, len(x))
		for i, e := range x {
			c[i] = copyVal(e)
		}
		return c
	case StructV:
		c := make(StructV, len(x))
		for i, e := range x {
			c[i] = copyVal(e)
		}
		return c
	case TupleV:
		c := make(TupleV, len(x))
		for i, e := range x {
			c[i] = copyVal(e)
		}
		return c
	}
	return v
}

// storeInto writes v into the slot, in place for aggregates so that interior pointers stay valid.
func storeInto(slot *Value, v Value) {
	switch x := v.(type) {
	case ArrayV:
		if dst, ok := (*slot).(ArrayV); ok && len(dst) == len(x) {
			for i := range x {
				storeInto(&dst[i], x[i])
			}
			return
		}
	case StructV:
		if dst, ok := (*slot).(StructV); ok && len(dst) == len(x) {
			for i := range x {
				storeInto(&dst[i], x[i])
			}
			return
		}
	}
	*slot = copyVal(v)
}

func describe(v Value) string {
	switch x := v.(type) {
	case nil:
		return "nil"
	case *Term:
		if x.IsConst() {
			return constSMT(x)
		}
		return fmt.Sprintf("<sym %s>", sortSMT(x.W))
	case StrV:
		if x.Sym == nil {
			return fmt.Sprintf("%q", x.S)
		}
		return fmt.Sprintf("<symstr len %d>", len(x.Sym))
	case Poison:
		return "poison(" + x.Why + ")"
	}
	return fmt.Sprintf("%T", v)
}
