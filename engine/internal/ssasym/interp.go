package ssasym

import (
	"fmt"
	"go/constant"
	"go/token"
	"go/types"
	"math/big"
	"os"
	"runtime/debug"
	"strings"
	"unicode/utf8"

	"golang.org/x/tools/go/ssa"
)

// debugAborts (env SSASYM_DEBUG=1) prints the engine's Go stack at every not-encodable abort.
var debugAborts = os.Getenv("SSASYM_DEBUG") != ""

// abort is an engine-level non-local exit (never visible to the interpreted program).
type abortKind int

const (
	abDrop         abortKind = iota // path infeasible (failed assume, no feasible alternative)
	abNotEncodable                  // unsupported instruction / call without body or stub
	abBudget                        // step or path bound exceeded
)

type abort struct {
	kind   abortKind
	reason string
}

// goPanic is a panic of the interpreted program.
type goPanic struct {
	val     Value
	msg     string
	fn      string // function in which it was raised
	blocked bool   // the distinguished verifBlocked panic of the channel model (chan.go)
}

type frameStatus int

const (
	stRunning frameStatus = iota
	stComplete
	stPanic
)

type deferred struct {
	fn   Value
	args []Value
	inv  *ssa.CallCommon // for invoke-mode defers
	site ssa.Instruction
}

type frame struct {
	in        *Interp
	caller    *frame
	fn        *ssa.Function
	env       map[ssa.Value]Value
	block     *ssa.BasicBlock
	prev      *ssa.BasicBlock
	defers    []deferred
	result    Value
	status    frameStatus
	panicking bool
	panic     *goPanic
}

// Interp is the per-path interpreter state plus the program.
type Interp struct {
	P    *Pool
	Prog *ssa.Program
	Ex   *Explorer

	globals  map[*ssa.Global]*Value
	pkgInit  map[*ssa.Package]int // 1 running, 2 done, 3 failed
	pkgFail  map[*ssa.Package]string
	tolerant int
	steps    int64
	maxSteps int64
	depth    int

	Entered map[*ssa.Function]bool // functions with bodies entered (kept across paths)
	StubHit map[string]bool        // stubs used (kept across paths)

	HarnessPkg *ssa.Package    // the package the harness is overlaid into
	GoIgnored  map[string]bool // `go` statements recorded and ignored (kept across paths)
	Repl       *replTable      // harness-supplied contracts (replace.go); nil if none
	ReplUsed   map[string]bool // "target => replacement" entries used (kept across paths)
	replActive map[*ssa.Function]int
	replDepth  int
	ghostCache map[*ssa.Global]bool
}

func (in *Interp) resetPath() {
	in.globals = map[*ssa.Global]*Value{}
	in.pkgInit = map[*ssa.Package]int{}
	in.pkgFail = map[*ssa.Package]string{}
	in.tolerant = 0
	in.steps = 0
	in.depth = 0
	in.replActive = map[*ssa.Function]int{}
	in.replDepth = 0
}

func (in *Interp) notEncodable(format string, a ...interface{}) Value {
	msg := fmt.Sprintf(format, a...)
	if in.tolerant > 0 {
		return Poison{msg}
	}
	if debugAborts {
		fmt.Fprintf(os.Stderr, "ssasym: not-encodable: %s\n%s\n", msg, debug.Stack())
	}
	panic(&abort{abNotEncodable, msg})
}

func (in *Interp) goPanicf(fr *frame, format string, a ...interface{}) {
	msg := fmt.Sprintf(format, a...)
	name := "?"
	if fr != nil {
		name = fr.fn.String()
	}
	panic(&goPanic{val: IfaceV{T: types.Typ[types.String], V: StrV{S: msg}}, msg: msg, fn: name})
}

// ---------- globals and lazy package initialisation ----------

func (in *Interp) global(g *ssa.Global) *Value {
	if slot, ok := in.globals[g]; ok {
		return slot
	}
	// allocate the whole package's view lazily: this global first, then run the initialiser.
	slot := new(Value)
	*slot = in.zero(g.Type().(*types.Pointer).Elem())
	in.globals[g] = slot
	if in.isGhostGlobal(g) {
		return slot
	}
	in.ensureInit(g.Pkg)
	return slot
}

// isGhostGlobal: a package-level variable of the harness package whose name starts with "verif"
// and that has no initialiser is harness state ("ghost variable", e.g. what a contract records
// about its arguments). It is zero at the start of every path, reading it does not run the
// target package's initialiser, and it stays usable when that initialiser is not encodable.
func (in *Interp) isGhostGlobal(g *ssa.Global) bool {
	if g.Pkg == nil || g.Pkg != in.HarnessPkg || !strings.HasPrefix(g.Name(), "verif") {
		return false
	}
	if r, ok := in.ghostCache[g]; ok {
		return r
	}
	ghost := true
	if initFn := g.Pkg.Func("init"); initFn != nil {
		for _, b := range initFn.Blocks {
			for _, ins := range b.Instrs {
				for _, op := range ins.Operands(nil) {
					if *op == ssa.Value(g) {
						ghost = false // has an initialiser: an ordinary package variable
					}
				}
			}
		}
	}
	if in.ghostCache == nil {
		in.ghostCache = map[*ssa.Global]bool{}
	}
	in.ghostCache[g] = ghost
	return ghost
}

func (in *Interp) ensureInit(pkg *ssa.Package) {
	if pkg == nil || in.pkgInit[pkg] != 0 {
		return
	}
	in.pkgInit[pkg] = 1
	initFn := pkg.Func("init")
	if initFn == nil || initFn.Blocks == nil {
		in.pkgInit[pkg] = 2
		return
	}
	in.tolerant++
	savedDepth := in.depth
	func() {
		defer func() {
			if r := recover(); r != nil {
				switch x := r.(type) {
				case *goPanic:
					in.pkgInit[pkg] = 3
					in.pkgFail[pkg] = "panic in package initialiser: " + x.msg
				case *abort:
					if x.kind == abBudget {
						panic(r)
					}
					in.pkgInit[pkg] = 3
					in.pkgFail[pkg] = x.reason
				default:
					panic(r)
				}
			}
		}()
		in.callSSA(nil, initFn, nil, nil)
		in.pkgInit[pkg] = 2
	}()
	in.depth = savedDepth
	in.tolerant--
}

// ---------- operands ----------

func (fr *frame) get(v ssa.Value) Value {
	switch x := v.(type) {
	case *ssa.Const:
		return fr.in.constValue(x)
	case *ssa.Global:
		slot := fr.in.global(x)
		if fr.in.pkgInit[x.Pkg] == 3 && !fr.in.isGhostGlobal(x) {
			// initialiser failed: nothing about this package's variables is known
			p := new(Value)
			*p = Poison{"package " + x.Pkg.Pkg.Path() + " initialiser not encodable: " + fr.in.pkgFail[x.Pkg]}
			return PtrV{P: p}
		}
		return PtrV{P: slot}
	case *ssa.Function:
		return &ClosureV{Fn: x}
	case *ssa.Builtin:
		return &ClosureV{Builtin: x}
	case nil:
		return nil
	}
	r, ok := fr.env[v]
	if !ok {
		panic(fmt.Sprintf("engine: no value for %s (%T) in %s", v.Name(), v, fr.fn))
	}
	return r
}

func (in *Interp) constValue(c *ssa.Const) Value {
	t := c.Type()
	if c.Value == nil {
		return in.zero(t)
	}
	if b, ok := t.Underlying().(*types.Basic); ok {
		switch {
		case b.Info()&types.IsBoolean != 0:
			return in.P.Bool(constant.BoolVal(c.Value))
		case b.Info()&types.IsInteger != 0:
			iv := constant.ToInt(c.Value)
			w := typeWidth(b)
			switch x := constant.Val(iv).(type) {
			case int64:
				return in.P.Const(w, uint64(x))
			case *big.Int:
				return in.P.ConstBig(w, x)
			}
		case b.Info()&types.IsString != 0:
			return StrV{S: constant.StringVal(c.Value)}
		}
	}
	return Poison{"constant of unsupported type " + t.String()}
}

// ---------- frames ----------

func (in *Interp) callSSA(caller *frame, fn *ssa.Function, args []Value, env []Value) Value {
	in.depth++
	if in.depth > 2000 {
		panic(&abort{abBudget, "call depth exceeded in " + fn.String()})
	}
	defer func() { in.depth-- }()
	if !in.Entered[fn] {
		in.Entered[fn] = true
	}
	fr := &frame{in: in, caller: caller, fn: fn, env: make(map[ssa.Value]Value, 16)}
	if len(args) != len(fn.Params) {
		panic(fmt.Sprintf("engine: %s called with %d args, wants %d", fn, len(args), len(fn.Params)))
	}
	for i, p := range fn.Params {
		fr.env[p] = args[i]
	}
	for i, fv := range fn.FreeVars {
		fr.env[fv] = env[i]
	}
	fr.block = fn.Blocks[0]
	for fr.block != nil {
		in.runFrame(fr)
	}
	return fr.result
}

func (in *Interp) runFrame(fr *frame) {
	defer func() {
		if fr.status == stComplete {
			return
		}
		r := recover()
		gp, ok := r.(*goPanic)
		if !ok {
			panic(r)
		}
		fr.status = stPanic
		fr.panicking = true
		fr.panic = gp
		in.runDefers(fr)
		if fr.panicking {
			panic(gp)
		}
		// recovered
		fr.status = stRunning
		fr.block = fr.fn.Recover
		fr.prev = nil
		if fr.block == nil {
			fr.result = in.zeroResults(fr.fn)
		}
	}()
	for {
		blk := fr.block
		first := 0
		if fr.prev != nil && len(blk.Instrs) > 0 {
			if _, isPhi := blk.Instrs[0].(*ssa.Phi); isPhi {
				idx := -1
				for i, p := range blk.Preds {
					if p == fr.prev {
						idx = i
						break
					}
				}
				if idx < 0 {
					panic("engine: phi without matching predecessor")
				}
				var phis []*ssa.Phi
				var vals []Value
				for _, ins := range blk.Instrs {
					ph, ok := ins.(*ssa.Phi)
					if !ok {
						break
					}
					phis = append(phis, ph)
					vals = append(vals, fr.get(ph.Edges[idx]))
				}
				for i, ph := range phis {
					fr.env[ph] = vals[i]
				}
				first = len(phis)
				in.steps += int64(first)
			}
		}
		for _, instr := range blk.Instrs[first:] {
			in.steps++
			if in.steps > in.maxSteps {
				panic(&abort{abBudget, fmt.Sprintf("step bound %d exceeded", in.maxSteps)})
			}
			switch in.visit(fr, instr) {
			case kReturn:
				fr.status = stComplete
				fr.block = nil
				return
			case kJump:
				goto next
			}
		}
		panic("engine: block without terminator")
	next:
	}
}

func (in *Interp) zeroResults(fn *ssa.Function) Value {
	res := fn.Signature.Results()
	switch res.Len() {
	case 0:
		return nil
	case 1:
		return in.zero(res.At(0).Type())
	}
	return in.zero(res)
}

func (in *Interp) runDefers(fr *frame) {
	for len(fr.defers) > 0 {
		d := fr.defers[len(fr.defers)-1]
		fr.defers = fr.defers[:len(fr.defers)-1]
		func() {
			defer func() {
				if r := recover(); r != nil {
					if gp, ok := r.(*goPanic); ok {
						// a deferred call panicked: replaces the current panic
						fr.panicking = true
						fr.panic = gp
						return
					}
					panic(r)
				}
			}()
			if d.inv != nil {
				in.invoke(fr, d.inv, d.fn, d.args, d.site)
			} else {
				in.callValue(fr, d.fn, d.args, d.site)
			}
		}()
	}
}

type cont int

const (
	kNext cont = iota
	kJump
	kReturn
)

// ---------- instruction dispatch ----------

func (in *Interp) visit(fr *frame, instr ssa.Instruction) cont {
	switch x := instr.(type) {
	case *ssa.DebugRef:
	case *ssa.UnOp:
		fr.env[x] = in.unop(fr, x)
	case *ssa.BinOp:
		fr.env[x] = in.binop(fr, x.Op, x.X.Type(), x.Y.Type(), fr.get(x.X), fr.get(x.Y))
	case *ssa.Call:
		fr.env[x] = in.call(fr, x.Common(), x)
	case *ssa.ChangeInterface:
		fr.env[x] = fr.get(x.X)
	case *ssa.ChangeType:
		fr.env[x] = fr.get(x.X)
	case *ssa.Convert:
		fr.env[x] = in.convert(fr, x.X.Type(), x.Type(), fr.get(x.X))
	case *ssa.MultiConvert:
		fr.env[x] = in.notEncodable("MultiConvert (uninstantiated generic conversion) in %s", fr.fn)
	case *ssa.SliceToArrayPointer:
		fr.env[x] = in.sliceToArrayPtr(fr, x)
	case *ssa.MakeInterface:
		v := fr.get(x.X)
		if p, ok := v.(Poison); ok {
			fr.env[x] = p
		} else {
			fr.env[x] = IfaceV{T: x.X.Type(), V: v}
		}
	case *ssa.Extract:
		tu := fr.get(x.Tuple)
		if p, ok := tu.(Poison); ok {
			fr.env[x] = p
		} else {
			fr.env[x] = tu.(TupleV)[x.Index]
		}
	case *ssa.Slice:
		fr.env[x] = in.sliceOp(fr, x)
	case *ssa.Return:
		switch len(x.Results) {
		case 0:
		case 1:
			fr.result = fr.get(x.Results[0])
		default:
			tu := make(TupleV, len(x.Results))
			for i, r := range x.Results {
				tu[i] = fr.get(r)
			}
			fr.result = tu
		}
		return kReturn
	case *ssa.RunDefers:
		in.runDefers(fr)
		if fr.panicking {
			panic(fr.panic)
		}
	case *ssa.Panic:
		v := fr.get(x.X)
		msg := "panic"
		if iv, ok := v.(IfaceV); ok {
			if s, ok := iv.V.(StrV); ok && s.Sym == nil {
				msg = "panic: " + s.S
			} else if iv.T != nil {
				msg = "panic: value of type " + iv.T.String()
			}
		}
		panic(&goPanic{val: v, msg: msg, fn: fr.fn.String()})
	case *ssa.Go:
		in.goStmt(fr, x)
	case *ssa.MakeChan:
		fr.env[x] = in.makeChan(fr, x)
	case *ssa.Send:
		in.chanSend(fr, fr.get(x.Chan), fr.get(x.X))
	case *ssa.Select:
		fr.env[x] = in.selectOp(fr, x)
	case *ssa.Store:
		in.store(fr, fr.get(x.Addr), fr.get(x.Val))
	case *ssa.If:
		succ := 1
		if in.branch(fr, fr.get(x.Cond)) {
			succ = 0
		}
		fr.prev, fr.block = fr.block, fr.block.Succs[succ]
		return kJump
	case *ssa.Jump:
		fr.prev, fr.block = fr.block, fr.block.Succs[0]
		return kJump
	case *ssa.Defer:
		d := deferred{site: x}
		c := x.Common()
		if c.IsInvoke() {
			d.inv = c
			d.fn = fr.get(c.Value)
		} else {
			d.fn = fr.get(c.Value)
		}
		for _, a := range c.Args {
			d.args = append(d.args, fr.get(a))
		}
		fr.defers = append(fr.defers, d)
	case *ssa.MakeClosure:
		var env []Value
		for _, b := range x.Bindings {
			env = append(env, fr.get(b))
		}
		fr.env[x] = &ClosureV{Fn: x.Fn.(*ssa.Function), Env: env}
	case *ssa.Phi:
		panic("engine: phi outside block entry in " + fr.fn.String())
	case *ssa.Alloc:
		slot := new(Value)
		*slot = in.zero(x.Type().(*types.Pointer).Elem())
		fr.env[x] = PtrV{P: slot}
	case *ssa.MakeSlice:
		n := in.concInt(fr, fr.get(x.Len), x.Len.Type(), "make: len")
		c := in.concInt(fr, fr.get(x.Cap), x.Cap.Type(), "make: cap")
		if n < 0 || c < n || c > 1<<24 {
			in.goPanicf(fr, "runtime error: makeslice: len out of range")
		}
		et := x.Type().Underlying().(*types.Slice).Elem()
		e := make([]Value, n, c)
		z := in.zero(et)
		for i := range e {
			if i == 0 {
				e[i] = z
			} else {
				e[i] = copyVal(z)
			}
		}
		fr.env[x] = SliceV{E: e}
	case *ssa.MakeMap:
		fr.env[x] = newMap()
	case *ssa.Range:
		fr.env[x] = in.rangeStart(fr, fr.get(x.X))
	case *ssa.Next:
		fr.env[x] = in.rangeNext(fr, x, fr.get(x.Iter))
	case *ssa.FieldAddr:
		fr.env[x] = in.fieldAddr(fr, fr.get(x.X), x.Field)
	case *ssa.Field:
		v := fr.get(x.X)
		if p, ok := v.(Poison); ok {
			fr.env[x] = p
		} else {
			fr.env[x] = v.(StructV)[x.Field]
		}
	case *ssa.IndexAddr:
		fr.env[x] = in.indexAddr(fr, x)
	case *ssa.Index:
		fr.env[x] = in.indexVal(fr, x)
	case *ssa.Lookup:
		fr.env[x] = in.lookup(fr, x)
	case *ssa.MapUpdate:
		m := fr.get(x.Map)
		if _, ok := m.(Poison); ok {
			break
		}
		mv := m.(*MapV)
		if mv == nil {
			in.goPanicf(fr, "assignment to entry in nil map")
		}
		in.mapSet(fr, mv, fr.get(x.Key), copyVal(fr.get(x.Value)))
	case *ssa.TypeAssert:
		fr.env[x] = in.typeAssert(fr, x)
	default:
		in.notEncodable("unsupported instruction %T in %s", instr, fr.fn)
		if v, ok := instr.(ssa.Value); ok {
			fr.env[v] = Poison{fmt.Sprintf("unsupported instruction %T", instr)}
		}
	}
	return kNext
}

// ---------- branching ----------

func (in *Interp) branch(fr *frame, c Value) bool {
	if p, ok := c.(Poison); ok {
		panic(&abort{abNotEncodable, "branch on value that could not be encoded: " + p.Why})
	}
	t := c.(*Term)
	if t.IsConst() {
		return t.V == 1
	}
	k := in.Ex.Decide(2, func(k int) *Term {
		if k == 0 {
			return t
		}
		return in.P.Not(t)
	}, "branch in "+fr.fn.String())
	return k == 0
}

// panicIf forks on a runtime-panic condition: the panic side first (usually infeasible).
func (in *Interp) panicIf(fr *frame, cond *Term, what string) {
	if cond.IsConst() {
		if cond.V == 1 {
			in.goPanicf(fr, "runtime error: %s", what)
		}
		return
	}
	k := in.Ex.Decide(2, func(k int) *Term {
		if k == 0 {
			return cond
		}
		return in.P.Not(cond)
	}, "panic check ("+what+") in "+fr.fn.String())
	if k == 0 {
		in.goPanicf(fr, "runtime error: %s", what)
	}
}

// concInt turns an integer value into a concrete int, forking over its feasible values when it
// is symbolic (small ranges only).
func (in *Interp) concInt(fr *frame, v Value, t types.Type, what string) int {
	if p, ok := v.(Poison); ok {
		panic(&abort{abNotEncodable, what + ": " + p.Why})
	}
	x := v.(*Term)
	if x.IsConst() {
		if isSignedType(t) {
			return int(x.S64())
		}
		if x.U64() > 1<<62 {
			return 1 << 62
		}
		return int(x.U64())
	}
	cv := in.Ex.DecideValue(x, what+" in "+fr.fn.String())
	c := in.P.Const(x.W, cv)
	if isSignedType(t) {
		return int(c.S64())
	}
	if cv > 1<<62 {
		return 1 << 62
	}
	return int(cv)
}

// ---------- loads and stores ----------

func (in *Interp) load(fr *frame, pv Value) Value {
	if p, ok := pv.(Poison); ok {
		return in.usePoison(p)
	}
	ptr := pv.(PtrV)
	if ptr.Sym != nil {
		s := ptr.Sym
		var acc Value
		for k := len(s.elems) - 1; k >= 0; k-- {
			if acc == nil {
				acc = s.elems[k]
				continue
			}
			acc = in.iteValue(in.P.Eq(s.idx, in.P.Const(64, uint64(k))), s.elems[k], acc)
		}
		return copyVal(acc)
	}
	if ptr.P == nil {
		in.goPanicf(fr, "runtime error: invalid memory address or nil pointer dereference")
	}
	return copyVal(*ptr.P)
}

func (in *Interp) usePoison(p Poison) Value {
	if in.tolerant > 0 {
		return p
	}
	panic(&abort{abNotEncodable, p.Why})
}

func (in *Interp) store(fr *frame, pv Value, v Value) {
	if p, ok := pv.(Poison); ok {
		in.usePoison(p)
		return
	}
	ptr := pv.(PtrV)
	if ptr.Sym != nil {
		s := ptr.Sym
		for k := range s.elems {
			s.elems[k] = in.iteValue(in.P.Eq(s.idx, in.P.Const(64, uint64(k))), copyVal(v), s.elems[k])
		}
		return
	}
	if ptr.P == nil {
		in.goPanicf(fr, "runtime error: invalid memory address or nil pointer dereference")
	}
	storeInto(ptr.P, v)
}

// iteValue merges two values of the same shape under a condition.
func (in *Interp) iteValue(c *Term, a, b Value) Value {
	if c.IsConst() {
		if c.V == 1 {
			return a
		}
		return b
	}
	switch x := a.(type) {
	case *Term:
		if y, ok := b.(*Term); ok && y.W == x.W {
			return in.P.Ite(c, x, y)
		}
	case ArrayV:
		if y, ok := b.(ArrayV); ok && len(x) == len(y) {
			r := make(ArrayV, len(x))
			for i := range x {
				r[i] = in.iteValue(c, x[i], y[i])
			}
			return r
		}
	case StructV:
		if y, ok := b.(StructV); ok && len(x) == len(y) {
			r := make(StructV, len(x))
			for i := range x {
				r[i] = in.iteValue(c, x[i], y[i])
			}
			return r
		}
	case Poison:
		return x
	case PtrV:
		if y, ok := b.(PtrV); ok && x == y {
			return x
		}
	case StrV:
		if y, ok := b.(StrV); ok && x.Len() == y.Len() {
			xb, yb := in.strBytes(x), in.strBytes(y)
			r := make([]*Term, len(xb))
			for i := range xb {
				r[i] = in.P.Ite(c, xb[i], yb[i])
			}
			return mkStr(r)
		}
	}
	if pb, ok := b.(Poison); ok {
		return pb
	}
	return in.notEncodable("symbolic selection between values of kind %T that cannot be merged", a)
}

// ---------- unary / binary operators ----------

func (in *Interp) unop(fr *frame, x *ssa.UnOp) Value {
	v := fr.get(x.X)
	if x.Op == token.MUL {
		r := in.load(fr, v)
		if x.CommaOk {
			return in.notEncodable("comma-ok load")
		}
		return r
	}
	if x.Op == token.ARROW {
		return in.chanRecv(fr, v, x.X.Type().Underlying().(*types.Chan).Elem(), x.CommaOk)
	}
	if p, ok := v.(Poison); ok {
		return in.usePoison(p)
	}
	switch x.Op {
	case token.SUB:
		if t, ok := v.(*Term); ok {
			return in.P.Neg(t)
		}
	case token.XOR:
		if t, ok := v.(*Term); ok {
			return in.P.Not(t)
		}
	case token.NOT:
		if t, ok := v.(*Term); ok {
			return in.P.Not(t)
		}
	}
	return in.notEncodable("unsupported unary operator %s on %T in %s", x.Op, v, fr.fn)
}

func (in *Interp) binop(fr *frame, op token.Token, tx, ty types.Type, xv, yv Value) Value {
	if p, ok := xv.(Poison); ok {
		return in.usePoison(p)
	}
	if p, ok := yv.(Poison); ok {
		return in.usePoison(p)
	}
	P := in.P
	switch x := xv.(type) {
	case *Term:
		y, ok := yv.(*Term)
		if !ok {
			break
		}
		if x.W == 0 { // bool
			switch op {
			case token.EQL:
				return P.Eq(x, y)
			case token.NEQ:
				return P.Ne(x, y)
			case token.AND:
				return P.And(x, y)
			case token.OR:
				return P.Or(x, y)
			}
			break
		}
		signed := isSignedType(tx)
		switch op {
		case token.ADD:
			return P.Add(x, y)
		case token.SUB:
			return P.Sub(x, y)
		case token.MUL:
			return P.Mul(x, y)
		case token.AND:
			return P.And(x, y)
		case token.OR:
			return P.Or(x, y)
		case token.XOR:
			return P.Xor(x, y)
		case token.AND_NOT:
			return P.AndNot(x, y)
		case token.QUO, token.REM:
			in.panicIf(fr, P.Eq(y, P.Const(y.W, 0)), "integer divide by zero")
			switch {
			case op == token.QUO && signed:
				return P.SDiv(x, y)
			case op == token.QUO:
				return P.UDiv(x, y)
			case signed:
				return P.SRem(x, y)
			default:
				return P.URem(x, y)
			}
		case token.SHL, token.SHR:
			if isSignedType(ty) {
				in.panicIf(fr, P.Slt(y, P.Const(y.W, 0)), "negative shift amount")
			}
			var cnt, big *Term
			switch {
			case y.W < x.W:
				cnt = P.ZExt(y, x.W)
			case y.W > x.W:
				big = P.Ule(P.Const(y.W, uint64(x.W)), y)
				cnt = P.Trunc(y, x.W)
			default:
				cnt = y
			}
			var r, over *Term
			switch {
			case op == token.SHL:
				r, over = P.Shl(x, cnt), P.Const(x.W, 0)
			case signed:
				r, over = P.AShr(x, cnt), P.AShr(x, P.Const(x.W, uint64(x.W-1)))
			default:
				r, over = P.LShr(x, cnt), P.Const(x.W, 0)
			}
			if big != nil {
				return P.Ite(big, over, r)
			}
			return r
		case token.EQL:
			return P.Eq(x, y)
		case token.NEQ:
			return P.Ne(x, y)
		case token.LSS:
			if signed {
				return P.Slt(x, y)
			}
			return P.Ult(x, y)
		case token.LEQ:
			if signed {
				return P.Sle(x, y)
			}
			return P.Ule(x, y)
		case token.GTR:
			if signed {
				return P.Slt(y, x)
			}
			return P.Ult(y, x)
		case token.GEQ:
			if signed {
				return P.Sle(y, x)
			}
			return P.Ule(y, x)
		}
	case StrV:
		y, ok := yv.(StrV)
		if !ok {
			break
		}
		if x.Opaque || y.Opaque {
			if op == token.ADD {
				return StrV{Opaque: true, NonEmpty: x.knownNonEmpty() || y.knownNonEmpty()}
			}
			if op == token.EQL || op == token.NEQ {
				// a string known to be non-empty differs from ""
				if (x.knownNonEmpty() && !y.Opaque && y.Len() == 0) || (y.knownNonEmpty() && !x.Opaque && x.Len() == 0) {
					return P.Bool(op == token.NEQ)
				}
			}
			return in.notEncodable("comparison of a formatted (opaque) string in %s", fr.fn)
		}
		switch op {
		case token.ADD:
			if x.Sym == nil && y.Sym == nil {
				return StrV{S: x.S + y.S}
			}
			return mkStr(append(append([]*Term{}, in.strBytes(x)...), in.strBytes(y)...))
		case token.EQL:
			return in.eqValue(x, y)
		case token.NEQ:
			return P.Not(in.eqValue(x, y))
		case token.LSS, token.LEQ, token.GTR, token.GEQ:
			c := in.cmpBytes(in.strBytes(x), in.strBytes(y)) // 64-bit -1/0/1
			z := P.Const(64, 0)
			switch op {
			case token.LSS:
				return P.Slt(c, z)
			case token.LEQ:
				return P.Sle(c, z)
			case token.GTR:
				return P.Slt(z, c)
			default:
				return P.Sle(z, c)
			}
		}
	}
	switch op {
	case token.EQL:
		return in.eqValue(xv, yv)
	case token.NEQ:
		return P.Not(in.eqValue(xv, yv))
	}
	return in.notEncodable("unsupported binary operator %s on %T, %T in %s", op, xv, yv, fr.fn)
}

// cmpBytes gives the lexicographic comparison of two byte strings as a 64-bit -1/0/+1 term.
func (in *Interp) cmpBytes(a, b []*Term) *Term {
	P := in.P
	n := len(a)
	if len(b) < n {
		n = len(b)
	}
	var tail *Term
	switch {
	case len(a) < len(b):
		tail = P.ConstBig(64, big.NewInt(-1))
	case len(a) > len(b):
		tail = P.Const(64, 1)
	default:
		tail = P.Const(64, 0)
	}
	acc := tail
	for i := n - 1; i >= 0; i-- {
		lt := P.Ult(a[i], b[i])
		gt := P.Ult(b[i], a[i])
		acc = P.Ite(lt, P.ConstBig(64, big.NewInt(-1)), P.Ite(gt, P.Const(64, 1), acc))
	}
	return acc
}

// eqValue is Go's == on interpreter values, as a Bool term.
func (in *Interp) eqValue(a, b Value) *Term {
	P := in.P
	switch x := a.(type) {
	case nil:
		return P.Bool(isNilValue(b))
	case *Term:
		if y, ok := b.(*Term); ok && x.W == y.W {
			return P.Eq(x, y)
		}
	case StrV:
		if y, ok := b.(StrV); ok {
			if x.Opaque || y.Opaque {
				in.notEncodable("comparison of a formatted (opaque) string")
				return P.False
			}
			if x.Len() != y.Len() {
				return P.False
			}
			if x.Sym == nil && y.Sym == nil {
				return P.Bool(x.S == y.S)
			}
			xb, yb := in.strBytes(x), in.strBytes(y)
			acc := P.True
			for i := range xb {
				acc = P.And(acc, P.Eq(xb[i], yb[i]))
			}
			return acc
		}
	case PtrV:
		if y, ok := b.(PtrV); ok {
			if x.Sym != nil || y.Sym != nil {
				break
			}
			return P.Bool(x.P == y.P)
		}
		if b == nil {
			return P.Bool(x.P == nil && x.Sym == nil)
		}
	case SliceV:
		if y, ok := b.(SliceV); ok {
			if x.E == nil || y.E == nil {
				return P.Bool(x.E == nil && y.E == nil)
			}
		}
		if b == nil {
			return P.Bool(x.E == nil)
		}
	case *MapV:
		if y, ok := b.(*MapV); ok {
			if x == nil || y == nil {
				return P.Bool(x == nil && y == nil)
			}
		}
		if b == nil {
			return P.Bool(x == nil)
		}
	case *ClosureV:
		if y, ok := b.(*ClosureV); ok {
			if x == nil || y == nil {
				return P.Bool(x == nil && y == nil)
			}
		}
		if b == nil {
			return P.Bool(x == nil)
		}
	case *ChanV:
		if y, ok := b.(*ChanV); ok {
			return P.Bool(x == y)
		}
		if b == nil {
			return P.Bool(x == nil)
		}
	case IfaceV:
		y, ok := b.(IfaceV)
		if !ok {
			if b == nil {
				return P.Bool(x.T == nil)
			}
			break
		}
		if x.T == nil || y.T == nil {
			return P.Bool(x.T == nil && y.T == nil)
		}
		if !types.Identical(x.T, y.T) {
			return P.False
		}
		if !types.Comparable(x.T) {
			panic(&goPanic{msg: "runtime error: comparing uncomparable type " + x.T.String(), fn: "?"})
		}
		return in.eqValue(x.V, y.V)
	case ArrayV:
		if y, ok := b.(ArrayV); ok && len(x) == len(y) {
			acc := P.True
			for i := range x {
				acc = P.And(acc, in.eqValue(x[i], y[i]))
			}
			return acc
		}
	case StructV:
		if y, ok := b.(StructV); ok && len(x) == len(y) {
			acc := P.True
			for i := range x {
				acc = P.And(acc, in.eqValue(x[i], y[i]))
			}
			return acc
		}
	case *NativeV:
		if y, ok := b.(*NativeV); ok {
			if x.Kind == "reflect.Type" && y.Kind == "reflect.Type" {
				return P.Bool(types.Identical(x.Type, y.Type))
			}
			return P.Bool(x == y)
		}
	}
	r := in.notEncodable("comparison of %T with %T", a, b)
	_ = r
	return P.False // only reached in tolerant mode; the result is never trusted there
}

func isNilValue(v Value) bool {
	switch x := v.(type) {
	case nil:
		return true
	case PtrV:
		return x.P == nil && x.Sym == nil
	case SliceV:
		return x.E == nil
	case *MapV:
		return x == nil
	case *ClosureV:
		return x == nil
	case *ChanV:
		return x == nil
	case IfaceV:
		return x.T == nil
	}
	return false
}

// ---------- conversions ----------

func (in *Interp) convert(fr *frame, ts, td types.Type, v Value) Value {
	if p, ok := v.(Poison); ok {
		return p
	}
	us, ud := ts.Underlying(), td.Underlying()
	ws, wd := typeWidth(us), typeWidth(ud)
	if ws > 0 && wd > 0 {
		x := v.(*Term)
		switch {
		case wd < ws:
			return in.P.Trunc(x, wd)
		case wd > ws:
			if isSignedType(us) {
				return in.P.SExt(x, wd)
			}
			return in.P.ZExt(x, wd)
		}
		return x
	}
	if isFloatOrComplex(us) || isFloatOrComplex(ud) {
		return in.notEncodable("floating-point conversion %s -> %s in %s", ts, td, fr.fn)
	}
	// string <-> []byte
	if isStringType(us) {
		if sl, ok := ud.(*types.Slice); ok {
			if typeWidth(sl.Elem()) == 8 {
				s := v.(StrV)
				bs := in.strBytes(s)
				e := make([]Value, len(bs))
				for i, b := range bs {
					e[i] = b
				}
				return SliceV{E: e}
			}
			if typeWidth(sl.Elem()) == 32 {
				s := v.(StrV)
				if s.Sym != nil {
					return in.notEncodable("string -> []rune on symbolic bytes")
				}
				var e []Value
				for _, r := range s.S {
					e = append(e, in.P.Const(32, uint64(uint32(r))))
				}
				if e == nil {
					e = []Value{}
				}
				return SliceV{E: e}
			}
		}
		if isStringType(ud) {
			return v
		}
	}
	if sl, ok := us.(*types.Slice); ok && isStringType(ud) {
		s := v.(SliceV)
		if typeWidth(sl.Elem()) == 8 {
			bs := make([]*Term, len(s.E))
			for i, e := range s.E {
				t, ok := e.(*Term)
				if !ok {
					return in.notEncodable("[]byte -> string on non-scalar element")
				}
				bs[i] = t
			}
			return mkStr(bs)
		}
		if typeWidth(sl.Elem()) == 32 {
			var sb strings.Builder
			for _, e := range s.E {
				t := e.(*Term)
				if !t.IsConst() {
					return in.notEncodable("[]rune -> string on symbolic runes")
				}
				sb.WriteRune(rune(int32(t.V)))
			}
			return StrV{S: sb.String()}
		}
	}
	if ws > 0 && isStringType(ud) {
		x := v.(*Term)
		if !x.IsConst() {
			return in.notEncodable("integer -> string on a symbolic value")
		}
		return StrV{S: string(rune(x.S64()))}
	}
	// pointer <-> unsafe.Pointer and friends
	return in.notEncodable("unsupported conversion %s -> %s in %s", ts, td, fr.fn)
}

func (in *Interp) sliceToArrayPtr(fr *frame, x *ssa.SliceToArrayPointer) Value {
	v := fr.get(x.X)
	if p, ok := v.(Poison); ok {
		return p
	}
	s := v.(SliceV)
	n := int(x.Type().(*types.Pointer).Elem().Underlying().(*types.Array).Len())
	if len(s.E) < n {
		in.goPanicf(fr, "runtime error: cannot convert slice with length %d to array or pointer to array with length %d", len(s.E), n)
	}
	if s.E == nil {
		return PtrV{}
	}
	slot := new(Value)
	*slot = ArrayV(s.E[:n:n])
	return PtrV{P: slot}
}

// ---------- slicing, indexing ----------

func (in *Interp) sliceOp(fr *frame, x *ssa.Slice) Value {
	v := fr.get(x.X)
	if p, ok := v.(Poison); ok {
		return in.usePoison(p)
	}
	optInt := func(e ssa.Value, def int) int {
		if e == nil {
			return def
		}
		return in.concInt(fr, fr.get(e), e.Type(), "slice bound")
	}
	switch s := v.(type) {
	case StrV:
		n := s.Len()
		lo := optInt(x.Low, 0)
		hi := optInt(x.High, n)
		if lo < 0 || hi < lo || hi > n {
			in.goPanicf(fr, "runtime error: slice bounds out of range [%d:%d] with length %d", lo, hi, n)
		}
		if s.Sym != nil {
			return mkStr(s.Sym[lo:hi])
		}
		return StrV{S: s.S[lo:hi]}
	case SliceV:
		c := cap(s.E)
		lo := optInt(x.Low, 0)
		hi := optInt(x.High, len(s.E))
		mx := optInt(x.Max, c)
		if lo < 0 || hi < lo || mx < hi || mx > c {
			in.goPanicf(fr, "runtime error: slice bounds out of range [%d:%d:%d] with capacity %d", lo, hi, mx, c)
		}
		if s.E == nil {
			return SliceV{}
		}
		if s.Grown && (hi > len(s.E) || (x.Max != nil && mx > len(s.E))) {
			return in.notEncodable("reslicing beyond len of a slice whose capacity was chosen by append growth (implementation-defined) in %s", fr.fn)
		}
		return SliceV{E: s.E[lo:hi:mx], Grown: s.Grown}
	case PtrV:
		if s.Sym != nil {
			return in.notEncodable("slicing through a symbolic-index pointer")
		}
		if s.P == nil {
			in.goPanicf(fr, "runtime error: invalid memory address or nil pointer dereference")
		}
		arr, ok := (*s.P).(ArrayV)
		if !ok {
			if p, ok := (*s.P).(Poison); ok {
				return in.usePoison(p)
			}
			panic("engine: slice of pointer to non-array")
		}
		c := len(arr)
		lo := optInt(x.Low, 0)
		hi := optInt(x.High, c)
		mx := optInt(x.Max, c)
		if lo < 0 || hi < lo || mx < hi || mx > c {
			in.goPanicf(fr, "runtime error: slice bounds out of range [%d:%d:%d] with capacity %d", lo, hi, mx, c)
		}
		e := []Value(arr)
		return SliceV{E: e[lo:hi:mx]}
	}
	return in.notEncodable("slice of %T", v)
}

// idx64 widens an index to 64 bits according to its static type.
func (in *Interp) idx64(v Value, t types.Type) *Term {
	x := v.(*Term)
	if x.W == 64 {
		return x
	}
	if isSignedType(t) {
		return in.P.SExt(x, 64)
	}
	return in.P.ZExt(x, 64)
}

// boundsCheck handles the index-out-of-range panic and returns (concrete index, true) or the
// 64-bit symbolic index known to be in range.
func (in *Interp) boundsCheck(fr *frame, idx *Term, n int) (int, *Term) {
	if idx.IsConst() {
		i := idx.S64()
		if i < 0 || i >= int64(n) {
			in.goPanicf(fr, "runtime error: index out of range [%d] with length %d", i, n)
		}
		return int(i), nil
	}
	// unsigned comparison also rejects negative (sign-extended) indices
	in.panicIf(fr, in.P.Ule(in.P.Const(64, uint64(n)), idx), fmt.Sprintf("index out of range with length %d", n))
	if n == 1 {
		return 0, nil
	}
	return 0, idx
}

func (in *Interp) indexAddr(fr *frame, x *ssa.IndexAddr) Value {
	base := fr.get(x.X)
	iv := fr.get(x.Index)
	if p, ok := base.(Poison); ok {
		return in.usePoison(p)
	}
	if p, ok := iv.(Poison); ok {
		return in.usePoison(p)
	}
	var elems []Value
	switch b := base.(type) {
	case SliceV:
		elems = b.E
	case PtrV:
		if b.Sym != nil {
			// pointer to an array selected by a symbolic index: fix the outer index first
			k := in.concIndex(fr, b.Sym)
			arr := b.Sym.elems[k].(ArrayV)
			elems = arr
		} else {
			if b.P == nil {
				in.goPanicf(fr, "runtime error: invalid memory address or nil pointer dereference")
			}
			arr, ok := (*b.P).(ArrayV)
			if !ok {
				if p, ok := (*b.P).(Poison); ok {
					return in.usePoison(p)
				}
				panic(fmt.Sprintf("engine: IndexAddr on pointer to %T", *b.P))
			}
			elems = arr
		}
	default:
		return in.notEncodable("IndexAddr on %T", base)
	}
	i, sym := in.boundsCheck(fr, in.idx64(iv, x.Index.Type()), len(elems))
	if sym == nil {
		return PtrV{P: &elems[i]}
	}
	return PtrV{Sym: &symIdx{elems: elems, idx: sym}}
}

// concIndex forks over the feasible values of a symbolic index.
func (in *Interp) concIndex(fr *frame, s *symIdx) int {
	n := len(s.elems)
	return in.Ex.Decide(n, func(k int) *Term {
		return in.P.Eq(s.idx, in.P.Const(64, uint64(k)))
	}, "symbolic index concretisation in "+fr.fn.String())
}

func (in *Interp) indexVal(fr *frame, x *ssa.Index) Value {
	base := fr.get(x.X)
	iv := fr.get(x.Index)
	if p, ok := base.(Poison); ok {
		return in.usePoison(p)
	}
	if p, ok := iv.(Poison); ok {
		return in.usePoison(p)
	}
	switch b := base.(type) {
	case ArrayV:
		i, sym := in.boundsCheck(fr, in.idx64(iv, x.Index.Type()), len(b))
		if sym == nil {
			return b[i]
		}
		return in.load(fr, PtrV{Sym: &symIdx{elems: b, idx: sym}})
	case StrV:
		return in.strIndex(fr, b, in.idx64(iv, x.Index.Type()))
	}
	return in.notEncodable("Index on %T", base)
}

func (in *Interp) strIndex(fr *frame, s StrV, idx *Term) Value {
	bs := in.strBytes(s)
	i, sym := in.boundsCheck(fr, idx, len(bs))
	if sym == nil {
		return bs[i]
	}
	e := make([]Value, len(bs))
	for k, b := range bs {
		e[k] = b
	}
	return in.load(fr, PtrV{Sym: &symIdx{elems: e, idx: sym}})
}

func (in *Interp) fieldAddr(fr *frame, pv Value, field int) Value {
	if p, ok := pv.(Poison); ok {
		return in.usePoison(p)
	}
	ptr := pv.(PtrV)
	if ptr.Sym != nil {
		k := in.concIndex(fr, ptr.Sym)
		st := ptr.Sym.elems[k].(StructV)
		return PtrV{P: &st[field]}
	}
	if ptr.P == nil {
		in.goPanicf(fr, "runtime error: invalid memory address or nil pointer dereference")
	}
	st, ok := (*ptr.P).(StructV)
	if !ok {
		if p, ok := (*ptr.P).(Poison); ok {
			return in.usePoison(p)
		}
		switch m := (*ptr.P).(type) {
		case BigV:
			return in.notEncodable("%s reaches inside an abstract big integer (%s): this method is not part of the big-integer model", fr.fn, m.Kind)
		case HashV:
			return in.notEncodable("%s reaches inside a modelled hash object (%s): this method is not part of the hash model", fr.fn, m.Kind)
		case *NativeV:
			return in.notEncodable("%s reaches inside an engine-native object (%s)", fr.fn, m.Kind)
		}
		panic(fmt.Sprintf("engine: FieldAddr on pointer to %T", *ptr.P))
	}
	return PtrV{P: &st[field]}
}

// ---------- maps ----------

func (in *Interp) lookup(fr *frame, x *ssa.Lookup) Value {
	base := fr.get(x.X)
	iv := fr.get(x.Index)
	if p, ok := base.(Poison); ok {
		return in.usePoison(p)
	}
	switch b := base.(type) {
	case StrV:
		return in.strIndex(fr, b, in.idx64(iv, x.Index.Type()))
	case *MapV:
		vt := x.X.Type().Underlying().(*types.Map).Elem()
		var val Value
		found := false
		if b != nil {
			if p, ok := iv.(Poison); ok {
				return in.usePoison(p)
			}
			if e := in.mapFind(fr, b, iv); e != nil {
				val, found = copyVal(e.v), true
			}
		}
		if !found {
			val = in.zero(vt)
		}
		if x.CommaOk {
			return TupleV{val, in.P.Bool(found)}
		}
		return val
	}
	return in.notEncodable("Lookup on %T", base)
}

// ---------- range ----------

func (in *Interp) rangeStart(fr *frame, v Value) Value {
	switch x := v.(type) {
	case *MapV:
		it := &rangeIter{isMap: true, m: x}
		if x != nil {
			it.ents = x.live()
		}
		return it
	case StrV:
		return &rangeIter{str: x}
	case Poison:
		return in.usePoison(x)
	}
	return in.notEncodable("range over %T", v)
}

func (in *Interp) rangeNext(fr *frame, x *ssa.Next, itv Value) Value {
	if p, ok := itv.(Poison); ok {
		return in.usePoison(p)
	}
	it := itv.(*rangeIter)
	P := in.P
	if it.isMap {
		for it.pos < len(it.ents) {
			e := it.ents[it.pos]
			it.pos++
			if !e.dead {
				return TupleV{P.True, e.k, copyVal(e.v)}
			}
		}
		return TupleV{P.False, nil, nil}
	}
	n := it.str.Len()
	if it.pos >= n {
		return TupleV{P.False, P.Const(64, 0), P.Const(32, 0)}
	}
	pos := it.pos
	if it.str.Sym == nil {
		r, w := utf8.DecodeRuneInString(it.str.S[pos:])
		it.pos += w
		return TupleV{P.True, P.Const(64, uint64(pos)), P.Const(32, uint64(uint32(r)))}
	}
	b := it.str.Sym[pos]
	if b.IsConst() && b.V >= 0x80 {
		var raw []byte
		for j := pos; j < n && j < pos+4; j++ {
			if !it.str.Sym[j].IsConst() {
				return in.notEncodable("range over a string with symbolic bytes after a non-ASCII lead byte")
			}
			raw = append(raw, byte(it.str.Sym[j].V))
		}
		r, w := utf8.DecodeRune(raw)
		it.pos += w
		return TupleV{P.True, P.Const(64, uint64(pos)), P.Const(32, uint64(uint32(r)))}
	}
	if !b.IsConst() {
		// Encoded: ASCII bytes, and bytes that can never start a UTF-8 sequence (0x80..0xC1 and
		// 0xF5..0xFF: continuation bytes, overlong leads, leads beyond U+10FFFF), which Go decodes as
		// (utf8.RuneError, width 1) whatever follows. A feasible valid lead byte 0xC2..0xF4 is outside
		// the encoding (its decoding depends on the following symbolic bytes).
		// Two stages, so that the first decision issues exactly the two queries "b >= 0x80" / "b < 0x80"
		// (for most strings the first is refuted at once) and the finer split is only asked for a byte
		// that can be non-ASCII.
		k := in.Ex.Decide(2, func(k int) *Term {
			if k == 0 {
				return P.Ule(P.Const(8, 0x80), b)
			}
			return P.Ult(b, P.Const(8, 0x80))
		}, "UTF-8 decoding of a symbolic byte in "+fr.fn.String())
		if k == 0 {
			j := in.Ex.Decide(2, func(j int) *Term {
				if j == 0 {
					return P.Or(P.Ult(b, P.Const(8, 0xC2)), P.Ult(P.Const(8, 0xF4), b))
				}
				return P.And(P.Ule(P.Const(8, 0xC2), b), P.Ule(b, P.Const(8, 0xF4)))
			}, "UTF-8 lead-byte class of a symbolic byte in "+fr.fn.String())
			if j == 1 {
				panic(&abort{abNotEncodable, "range over string: symbolic byte may be a valid UTF-8 lead byte (only ASCII and never-lead bytes are encoded)"})
			}
			it.pos++
			return TupleV{P.True, P.Const(64, uint64(pos)), P.Const(32, uint64(utf8.RuneError))}
		}
	}
	it.pos++
	return TupleV{P.True, P.Const(64, uint64(pos)), P.ZExt(b, 32)}
}

// ---------- type assertions ----------

func (in *Interp) implements(t types.Type, iface *types.Interface) bool {
	ms := in.Prog.MethodSets.MethodSet(t)
	for i := 0; i < iface.NumMethods(); i++ {
		m := iface.Method(i)
		sel := ms.Lookup(m.Pkg(), m.Name())
		if sel == nil {
			return false
		}
		// the method must have the interface method's signature, not just its name
		// (types.Identical on signatures ignores the receiver)
		if !types.Identical(sel.Type(), m.Type()) {
			return false
		}
	}
	return true
}

func (in *Interp) typeAssert(fr *frame, x *ssa.TypeAssert) Value {
	v := fr.get(x.X)
	if p, ok := v.(Poison); ok {
		return in.usePoison(p)
	}
	iv := v.(IfaceV)
	ok := false
	var res Value
	if it, isIface := x.AssertedType.Underlying().(*types.Interface); isIface {
		if iv.T != nil {
			if nv, isNative := iv.V.(*NativeV); isNative && nv.Kind == "reflect.Type" {
				ok = true
			} else {
				ok = in.implements(iv.T, it)
			}
		}
		res = iv
	} else {
		ok = iv.T != nil && types.Identical(iv.T, x.AssertedType)
		res = iv.V
	}
	if x.CommaOk {
		if !ok {
			res = in.zero(x.AssertedType)
		}
		return TupleV{res, in.P.Bool(ok)}
	}
	if !ok {
		in.goPanicf(fr, "interface conversion: interface is %v, not %s", iv.T, x.AssertedType)
	}
	return res
}
