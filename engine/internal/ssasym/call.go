package ssasym

import (
	"fmt"
	"go/types"
	"strings"

	"golang.org/x/tools/go/ssa"
)

// stubFn is an engine-native implementation of a Go function.
type stubFn func(in *Interp, fr *frame, fn *ssa.Function, args []Value) Value

func (in *Interp) call(fr *frame, c *ssa.CallCommon, site ssa.Instruction) Value {
	args := make([]Value, 0, len(c.Args)+1)
	if c.IsInvoke() {
		recv := fr.get(c.Value)
		for _, a := range c.Args {
			args = append(args, fr.get(a))
		}
		return in.invoke(fr, c, recv, args, site)
	}
	for _, a := range c.Args {
		args = append(args, fr.get(a))
	}
	switch f := c.Value.(type) {
	case *ssa.Builtin:
		return in.builtin(fr, f, args, c)
	case *ssa.Function:
		return in.callFn(fr, f, args, nil, site)
	}
	return in.callValue(fr, fr.get(c.Value), args, site)
}

func (in *Interp) callValue(fr *frame, fv Value, args []Value, site ssa.Instruction) Value {
	switch f := fv.(type) {
	case *ClosureV:
		if f == nil {
			in.goPanicf(fr, "runtime error: invalid memory address or nil pointer dereference (nil func)")
		}
		if f.Builtin != nil {
			return in.builtin(fr, f.Builtin, args, nil)
		}
		return in.callFn(fr, f.Fn, args, f.Env, site)
	case Poison:
		return in.usePoison(f)
	}
	return in.notEncodable("call of %T", fv)
}

func (in *Interp) invoke(fr *frame, c *ssa.CallCommon, recv Value, args []Value, site ssa.Instruction) Value {
	if p, ok := recv.(Poison); ok {
		return in.usePoison(p)
	}
	iv := recv.(IfaceV)
	if iv.T == nil {
		in.goPanicf(fr, "runtime error: invalid memory address or nil pointer dereference (method %s on nil interface)", c.Method.Name())
	}
	if nv, ok := iv.V.(*NativeV); ok {
		return in.nativeInvoke(fr, nv, c.Method.Name(), args)
	}
	if pv, ok := iv.V.(PtrV); ok && pv.P != nil {
		if _, isHash := (*pv.P).(HashV); isHash {
			return in.hashMethod(fr, pv, "", c.Method.Name(), args)
		}
	}
	fn := in.Prog.LookupMethod(iv.T, c.Method.Pkg(), c.Method.Name())
	if fn == nil {
		return in.notEncodable("no method %s on dynamic type %s", c.Method.Name(), iv.T)
	}
	full := append([]Value{iv.V}, args...)
	return in.callFn(fr, fn, full, nil, site)
}

// stubName gives the lookup key of a function: the origin's name for generic instances.
func stubName(fn *ssa.Function) string {
	if o := fn.Origin(); o != nil {
		return o.String()
	}
	return fn.String()
}

func (in *Interp) callFn(fr *frame, fn *ssa.Function, args []Value, env []Value, site ssa.Instruction) Value {
	name := stubName(fn)
	if strings.HasPrefix(fn.Name(), "verif") && fn.Signature.Recv() == nil {
		if st, ok := intrinsics[fn.Name()]; ok {
			return st(in, fr, fn, args)
		}
	}
	if r, done := in.tryReplace(fr, fn, args); done {
		return r
	}
	if st, ok := stubs[name]; ok {
		if d := in.directive(fn, replModeReal); d != nil && fn.Blocks != nil {
			in.noteDirective(d, fn) // harness opted out of the engine stub: interpret the body
		} else {
			in.StubHit[name] = true
			return st(in, fr, fn, args)
		}
	}
	if fn.Blocks == nil {
		return in.notEncodable("call to %s: no body and no stub", name)
	}
	if fn.Synthetic == "package initializer" {
		// dependencies are initialised lazily, on first access to one of their variables
		return nil
	}
	if why, bad := denyList(name); bad {
		return in.notEncodable("call to %s: %s", name, why)
	}
	return in.callSSA(fr, fn, args, env)
}

// denyList names std entry points that have bodies but must not be interpreted (they reach
// runtime internals, unsafe, or assembly).
func denyList(name string) (string, bool) {
	for _, p := range []string{"runtime.", "(*runtime.", "sync.", "(*sync.", "sync/atomic.", "(*sync/atomic.",
		"unsafe.", "reflect.", "(*reflect.", "(reflect.", "internal/", "(*internal/", "syscall.", "os.", "(*os.",
		"time.", "(*time.", "(time."} {
		if strings.HasPrefix(name, p) {
			return "package is outside the encoding (no stub)", true
		}
	}
	return "", false
}

// ---------- builtins ----------

func (in *Interp) builtin(fr *frame, b *ssa.Builtin, args []Value, c *ssa.CallCommon) Value {
	for _, a := range args {
		if p, ok := a.(Poison); ok {
			return in.usePoison(p)
		}
	}
	P := in.P
	switch b.Name() {
	case "len":
		switch x := args[0].(type) {
		case StrV:
			if x.Opaque {
				return in.notEncodable("len of a formatted (opaque) string")
			}
			return P.Const(64, uint64(x.Len()))
		case SliceV:
			return P.Const(64, uint64(len(x.E)))
		case ArrayV:
			return P.Const(64, uint64(len(x)))
		case PtrV: // *array
			if x.P != nil {
				if a, ok := (*x.P).(ArrayV); ok {
					return P.Const(64, uint64(len(a)))
				}
			}
			if c != nil {
				if pt, ok := c.Args[0].Type().Underlying().(*types.Pointer); ok {
					if at, ok := pt.Elem().Underlying().(*types.Array); ok {
						return P.Const(64, uint64(at.Len()))
					}
				}
			}
		case *MapV:
			if x == nil {
				return P.Const(64, 0)
			}
			return P.Const(64, uint64(x.size()))
		case *ChanV:
			if x == nil {
				return P.Const(64, 0)
			}
			return P.Const(64, uint64(len(x.Buf)))
		case nil:
			return P.Const(64, 0)
		}
	case "close":
		in.chanClose(fr, args[0])
		return nil
	case "cap":
		switch x := args[0].(type) {
		case *ChanV:
			if x == nil {
				return P.Const(64, 0)
			}
			return P.Const(64, uint64(x.Cap))
		case SliceV:
			if x.Grown {
				return in.notEncodable("cap() of a slice whose capacity was chosen by append growth (implementation-defined)")
			}
			return P.Const(64, uint64(cap(x.E)))
		case ArrayV:
			return P.Const(64, uint64(len(x)))
		case PtrV:
			if x.P != nil {
				if a, ok := (*x.P).(ArrayV); ok {
					return P.Const(64, uint64(len(a)))
				}
			}
		}
	case "append":
		dst := args[0].(SliceV)
		var src []Value
		switch s := args[1].(type) {
		case SliceV:
			src = s.E
		case StrV:
			for _, bt := range in.strBytes(s) {
				src = append(src, bt)
			}
		}
		if len(src) == 0 {
			return dst
		}
		cp := make([]Value, len(src))
		for i, e := range src {
			cp[i] = copyVal(e)
		}
		if len(dst.E)+len(cp) > cap(dst.E) {
			return SliceV{E: append(dst.E, cp...), Grown: true}
		}
		return SliceV{E: append(dst.E, cp...), Grown: dst.Grown}
	case "copy":
		dst := args[0].(SliceV)
		var src []Value
		switch s := args[1].(type) {
		case SliceV:
			src = s.E
		case StrV:
			for _, bt := range in.strBytes(s) {
				src = append(src, bt)
			}
		}
		n := len(dst.E)
		if len(src) < n {
			n = len(src)
		}
		// memmove semantics
		tmp := make([]Value, n)
		for i := 0; i < n; i++ {
			tmp[i] = copyVal(src[i])
		}
		for i := 0; i < n; i++ {
			storeInto(&dst.E[i], tmp[i])
		}
		return P.Const(64, uint64(n))
	case "delete":
		m := args[0].(*MapV)
		if m == nil {
			return nil
		}
		in.mapDelete(fr, m, args[1])
		return nil
	case "min", "max":
		t := c.Args[0].Type()
		acc, ok := args[0].(*Term)
		if !ok {
			return in.notEncodable("min/max on %T", args[0])
		}
		for _, a := range args[1:] {
			y := a.(*Term)
			var less *Term // y < acc
			if isSignedType(t) {
				less = P.Slt(y, acc)
			} else {
				less = P.Ult(y, acc)
			}
			if b.Name() == "min" {
				acc = P.Ite(less, y, acc)
			} else {
				var greater *Term
				if isSignedType(t) {
					greater = P.Slt(acc, y)
				} else {
					greater = P.Ult(acc, y)
				}
				acc = P.Ite(greater, y, acc)
			}
		}
		return acc
	case "clear":
		switch x := args[0].(type) {
		case SliceV:
			if len(x.E) > 0 {
				et := c.Args[0].Type().Underlying().(*types.Slice).Elem()
				for i := range x.E {
					storeInto(&x.E[i], in.zero(et))
				}
			}
			return nil
		case *MapV:
			if x != nil {
				x.clear()
			}
			return nil
		}
	case "print", "println":
		return nil
	case "recover":
		// valid only when called directly by a deferred function while its caller panics
		if fr.caller != nil && fr.caller.panicking {
			fr.caller.panicking = false
			gp := fr.caller.panic
			if gp.val == nil {
				return IfaceV{T: types.Typ[types.String], V: StrV{S: gp.msg}}
			}
			return gp.val
		}
		return IfaceV{}
	case "ssa:wrapnilchk":
		if isNilValue(args[0]) {
			in.goPanicf(fr, "value method %s.%s called using nil pointer", describe(args[1]), describe(args[2]))
		}
		return args[0]
	}
	return in.notEncodable("unsupported builtin %s on %s", b.Name(), fmt.Sprintf("%T", args[0]))
}

// nativeInvoke dispatches a method call on an engine-native object.
func (in *Interp) nativeInvoke(fr *frame, nv *NativeV, method string, args []Value) Value {
	switch nv.Kind {
	case "reflect.Type":
		switch method {
		case "Kind":
			return in.P.Const(64, uint64(reflectKind(nv.Type)))
		case "String", "Name":
			return StrV{S: nv.Type.String()}
		case "Size":
			if w := typeWidth(nv.Type); w > 0 {
				return in.P.Const(64, uint64(w/8))
			}
		case "Bits":
			if w := typeWidth(nv.Type); w > 0 {
				return in.P.Const(64, uint64(w))
			}
		}
	}
	return in.notEncodable("method %s on native %s object", method, nv.Kind)
}

// reflectKind maps a type to reflect.Kind's numbering.
func reflectKind(t types.Type) int {
	switch u := t.Underlying().(type) {
	case *types.Basic:
		switch u.Kind() {
		case types.Bool:
			return 1
		case types.Int:
			return 2
		case types.Int8:
			return 3
		case types.Int16:
			return 4
		case types.Int32:
			return 5
		case types.Int64:
			return 6
		case types.Uint:
			return 7
		case types.Uint8:
			return 8
		case types.Uint16:
			return 9
		case types.Uint32:
			return 10
		case types.Uint64:
			return 11
		case types.Uintptr:
			return 12
		case types.Float32:
			return 13
		case types.Float64:
			return 14
		case types.Complex64:
			return 15
		case types.Complex128:
			return 16
		case types.String:
			return 24
		case types.UnsafePointer:
			return 26
		}
	case *types.Array:
		return 17
	case *types.Chan:
		return 18
	case *types.Signature:
		return 19
	case *types.Interface:
		return 20
	case *types.Map:
		return 21
	case *types.Pointer:
		return 22
	case *types.Slice:
		return 23
	case *types.Struct:
		return 25
	}
	return 0
}
