package ssasym

import (
	"crypto/sha256"
	"crypto/sha3"
	"crypto/sha512"
	"fmt"
	"go/types"
	"hash"
	"strconv"
	"strings"

	"golang.org/x/crypto/blake2b"
	"golang.org/x/tools/go/ssa"
)

// Hash functions as byte logs (DESIGN §3.4).
//
// A hash object is a HashV stored *by value* in the slot of the Go object (the sha3.SHAKE /
// sha3.SHA3 struct, or the digest behind a hash.Hash). Write appends the (possibly symbolic)
// bytes to the log; because the HashV is an immutable value that is replaced on every update
// and its slices are never written in place, copying the Go struct value (`clone := *h`) copies
// the log, exactly like the real types.
//
// Outputs: if customization, key and log are all concrete the REAL hash is computed (so
// constants derived by hashing are the real ones and concrete-mode runs agree with native
// ones). Otherwise the output is a vector of fresh bytes per distinct (kind, prefix, log),
// interned per path, with functional-consistency (Ackermann) constraints added to the path
// condition between any two comparable logs that are not syntactically identical:
//     (all bytes of the two logs equal)  =>  (outputs equal).
// Collision-freeness (outputs equal => logs equal) is NOT assumed.
//
// verifHashLog(h) returns prefix || absorbed bytes, where the prefix makes differently
// customised / keyed instances differ as logs:
//     cSHAKE with N or S non-empty:  be64(len N) || N || be64(len S) || S
//     BLAKE2b with a non-empty key:  be64(len key) || key
//     everything else:               empty
// (be64 = 8-byte big-endian). cSHAKE with N = S = "" is SHAKE (as in FIPS/SP 800-185 and Go).

// HashV is the state of one hash object.
type HashV struct {
	Kind      string // shake128 shake256 sha3-224 sha3-256 sha3-384 sha3-512 sha224 sha256 sha384 sha512 sha512-224 sha512-256 blake2b-<bytes>
	N, S      []*Term
	Key       []*Term
	Log       []*Term
	ReadOff   int
	Squeezing bool
	Hist      [][]*Term // prefix||log at every Sum call, in order (survives Reset)
}

type hashParams struct {
	size, block int
	xof         bool
}

func hashParamsOf(kind string) (hashParams, bool) {
	switch kind {
	case "shake128":
		return hashParams{0, 168, true}, true
	case "shake256":
		return hashParams{0, 136, true}, true
	case "sha3-224":
		return hashParams{28, 144, false}, true
	case "sha3-256":
		return hashParams{32, 136, false}, true
	case "sha3-384":
		return hashParams{48, 104, false}, true
	case "sha3-512":
		return hashParams{64, 72, false}, true
	case "sha224":
		return hashParams{28, 64, false}, true
	case "sha256":
		return hashParams{32, 64, false}, true
	case "sha384":
		return hashParams{48, 128, false}, true
	case "sha512":
		return hashParams{64, 128, false}, true
	case "sha512-224":
		return hashParams{28, 128, false}, true
	case "sha512-256":
		return hashParams{32, 128, false}, true
	}
	if strings.HasPrefix(kind, "blake2b-") {
		n, err := strconv.Atoi(kind[len("blake2b-"):])
		if err == nil && n >= 1 && n <= 64 {
			return hashParams{n, 128, false}, true
		}
	}
	return hashParams{}, false
}

func (in *Interp) be64(n int) []*Term {
	out := make([]*Term, 8)
	for i := 0; i < 8; i++ {
		out[i] = in.P.Const(8, uint64(n)>>(8*uint(7-i)))
	}
	return out
}

// prefix is the customization / key part of the log (see the file comment).
func (in *Interp) hashPrefix(h HashV) []*Term {
	var out []*Term
	if strings.HasPrefix(h.Kind, "shake") && (len(h.N) > 0 || len(h.S) > 0) {
		out = append(out, in.be64(len(h.N))...)
		out = append(out, h.N...)
		out = append(out, in.be64(len(h.S))...)
		out = append(out, h.S...)
	}
	if strings.HasPrefix(h.Kind, "blake2b") && len(h.Key) > 0 {
		out = append(out, in.be64(len(h.Key))...)
		out = append(out, h.Key...)
	}
	return out
}

func (in *Interp) hashFullLog(h HashV) []*Term {
	p := in.hashPrefix(h)
	out := make([]*Term, 0, len(p)+len(h.Log))
	out = append(out, p...)
	return append(out, h.Log...)
}

func concreteBytes(ts []*Term) ([]byte, bool) {
	out := make([]byte, len(ts))
	for i, t := range ts {
		if !t.IsConst() {
			return nil, false
		}
		out[i] = byte(t.V)
	}
	return out, true
}

// realHash computes bytes off..off+n of the real output.
func realHash(kind string, N, S, key, log []byte, off, n int) ([]byte, error) {
	var hh hash.Hash
	switch kind {
	case "shake128", "shake256":
		var x *sha3.SHAKE
		if kind == "shake128" {
			x = sha3.NewCSHAKE128(N, S)
		} else {
			x = sha3.NewCSHAKE256(N, S)
		}
		x.Write(log)
		buf := make([]byte, off+n)
		x.Read(buf)
		return buf[off:], nil
	case "sha3-224":
		hh = sha3.New224()
	case "sha3-256":
		hh = sha3.New256()
	case "sha3-384":
		hh = sha3.New384()
	case "sha3-512":
		hh = sha3.New512()
	case "sha224":
		hh = sha256.New224()
	case "sha256":
		hh = sha256.New()
	case "sha384":
		hh = sha512.New384()
	case "sha512":
		hh = sha512.New()
	case "sha512-224":
		hh = sha512.New512_224()
	case "sha512-256":
		hh = sha512.New512_256()
	default:
		p, ok := hashParamsOf(kind)
		if !ok {
			return nil, fmt.Errorf("unknown hash kind %s", kind)
		}
		var err error
		hh, err = blake2b.New(p.size, key)
		if err != nil {
			return nil, err
		}
	}
	hh.Write(log)
	d := hh.Sum(nil)
	if off+n > len(d) {
		return nil, fmt.Errorf("output range %d..%d beyond digest size %d", off, off+n, len(d))
	}
	return d[off : off+n], nil
}

// hashOutput gives output bytes off..off+n of the hash of h's current log.
func (in *Interp) hashOutput(h HashV, off, n int) []*Term {
	cN, okN := concreteBytes(h.N)
	cS, okS := concreteBytes(h.S)
	cK, okK := concreteBytes(h.Key)
	cL, okL := concreteBytes(h.Log)
	if okN && okS && okK && okL {
		d, err := realHash(h.Kind, cN, cS, cK, cL, off, n)
		if err != nil {
			panic(&abort{abNotEncodable, "hash model: " + err.Error()})
		}
		out := make([]*Term, n)
		for i, b := range d {
			out[i] = in.P.Const(8, uint64(b))
		}
		return out
	}
	return in.Ex.HashOutputs(h.Kind, in.hashFullLog(h), off, n)
}

// ---------- per-path registry of symbolic hash outputs (lives in the Explorer) ----------

type hashEntry struct {
	kind string
	full []*Term
	out  []*Term
	idx  int
}

// HashOutputs returns output bytes off..off+n for (kind, full log), creating fresh bytes and the
// functional-consistency constraints as needed.
func (e *Explorer) HashOutputs(kind string, full []*Term, off, n int) []*Term {
	if e.concrete {
		panic("engine: symbolic hash log in concrete mode")
	}
	var sb strings.Builder
	sb.WriteString(kind)
	for _, t := range full {
		sb.WriteByte(',')
		sb.WriteString(strconv.Itoa(t.ID))
	}
	key := sb.String()
	ent, ok := e.hashReg[key]
	if !ok {
		ent = &hashEntry{kind: kind, full: full, idx: len(e.hashList)}
		e.hashReg[key] = ent
		e.hashList = append(e.hashList, ent)
	}
	e.idealHash = true
	for len(ent.out) < off+n {
		i := len(ent.out)
		v := e.P.Var(fmt.Sprintf("ho%d_%d", ent.idx, i), 8)
		ent.out = append(ent.out, v)
		// functional consistency against every comparable entry that already has byte i
		for _, f := range e.hashList {
			if f == ent || f.kind != kind || len(f.full) != len(full) || len(f.out) <= i {
				continue
			}
			eq := e.P.True
			for j := range full {
				eq = e.P.And(eq, e.P.Eq(full[j], f.full[j]))
				if eq == e.P.False {
					break
				}
			}
			if eq == e.P.False {
				continue
			}
			ax := e.P.Implies(eq, e.P.Eq(v, f.out[i]))
			if !ax.IsConst() {
				e.pc = append(e.pc, ax)
			}
		}
	}
	return ent.out[off : off+n]
}

// ---------- object access ----------

// hashAt returns the HashV in a slot, initialising a zero-valued Go struct according to the
// documented zero values (SHAKE: SHAKE256, SHA3: SHA3-256).
func (in *Interp) hashAt(fr *frame, recv Value, zeroKind string) (*Value, HashV) {
	if p, ok := recv.(Poison); ok {
		in.usePoison(p)
		panic(&abort{abNotEncodable, p.Why})
	}
	ptr, ok := recv.(PtrV)
	if !ok || ptr.Sym != nil {
		panic(&abort{abNotEncodable, fmt.Sprintf("hash method on %T", recv)})
	}
	if ptr.P == nil {
		in.goPanicf(fr, "runtime error: invalid memory address or nil pointer dereference (hash object)")
	}
	switch x := (*ptr.P).(type) {
	case HashV:
		return ptr.P, x
	case StructV:
		if zeroKind != "" {
			return ptr.P, HashV{Kind: zeroKind}
		}
	}
	panic(&abort{abNotEncodable, fmt.Sprintf("hash method on an object that is not a modelled hash (%T)", *ptr.P)})
}

func (in *Interp) sliceTerms(v Value, what string) []*Term {
	switch s := v.(type) {
	case SliceV:
		out := make([]*Term, len(s.E))
		for i, e := range s.E {
			t, ok := e.(*Term)
			if !ok {
				panic(&abort{abNotEncodable, what + ": byte could not be encoded"})
			}
			out[i] = t
		}
		return out
	case StrV:
		return in.strBytes(s)
	}
	panic(&abort{abNotEncodable, fmt.Sprintf("%s: %T", what, v)})
}

func termsToSlice(ts []*Term) SliceV {
	e := make([]Value, len(ts))
	for i, t := range ts {
		e[i] = t
	}
	return SliceV{E: e}
}

func appendLog(log, more []*Term) []*Term {
	out := make([]*Term, 0, len(log)+len(more))
	out = append(out, log...)
	return append(out, more...)
}

// hashMethod implements the methods of every modelled hash object.
func (in *Interp) hashMethod(fr *frame, recv Value, zeroKind, method string, args []Value) Value {
	slot, h := in.hashAt(fr, recv, zeroKind)
	p, ok := hashParamsOf(h.Kind)
	if !ok {
		panic(&abort{abNotEncodable, "unknown hash kind " + h.Kind})
	}
	in.StubHit["hashlog:"+h.Kind+"."+method] = true
	nilErr := IfaceV{}
	switch method {
	case "Write":
		if h.Squeezing {
			in.goPanicf(fr, "sha3: Write after Read")
		}
		data := in.sliceTerms(args[0], "hash Write")
		h.Log = appendLog(h.Log, data)
		*slot = h
		return TupleV{in.P.Const(64, uint64(len(data))), nilErr}
	case "WriteString":
		data := in.sliceTerms(args[0], "hash WriteString")
		h.Log = appendLog(h.Log, data)
		*slot = h
		return TupleV{in.P.Const(64, uint64(len(data))), nilErr}
	case "WriteByte":
		h.Log = appendLog(h.Log, []*Term{args[0].(*Term)})
		*slot = h
		return nilErr
	case "Read":
		if !p.xof {
			break
		}
		dst, ok := args[0].(SliceV)
		if !ok {
			break
		}
		out := in.hashOutput(h, h.ReadOff, len(dst.E))
		for i, o := range out {
			dst.E[i] = o
		}
		h.ReadOff += len(dst.E)
		h.Squeezing = true
		*slot = h
		return TupleV{in.P.Const(64, uint64(len(dst.E))), nilErr}
	case "Sum":
		if p.xof {
			break
		}
		b, ok := args[0].(SliceV)
		if !ok {
			break
		}
		out := in.hashOutput(h, 0, p.size)
		h.Hist = append(h.Hist[:len(h.Hist):len(h.Hist)], in.hashFullLog(h))
		*slot = h
		e := make([]Value, 0, len(b.E)+len(out))
		e = append(e, b.E...)
		for _, o := range out {
			e = append(e, o)
		}
		if len(b.E)+len(out) <= cap(b.E) {
			// Sum appends in place when the capacity allows (h.Sum(buf[:0]))
			res := b.E[:len(b.E)+len(out)]
			for i, o := range out {
				res[len(b.E)+i] = o
			}
			return SliceV{E: res, Grown: b.Grown}
		}
		return SliceV{E: e, Grown: true}
	case "Reset":
		h.Log, h.ReadOff, h.Squeezing = nil, 0, false
		*slot = h
		return nil
	case "Size":
		return in.P.Const(64, uint64(p.size))
	case "BlockSize":
		return in.P.Const(64, uint64(p.block))
	}
	return in.notEncodable("hash model: method %s on %s", method, h.Kind)
}

// newHashObject allocates a hash object and returns a pointer to it.
func newHashObject(h HashV) PtrV {
	slot := new(Value)
	*slot = h
	return PtrV{P: slot}
}

// hashIface wraps a hash object as a hash.Hash interface value with the real dynamic type.
func (in *Interp) hashIface(h HashV, pkgPath, typeName string) Value {
	t := in.namedType(pkgPath, typeName)
	if t == nil {
		return in.notEncodable("hash model: type %s.%s is not loaded", pkgPath, typeName)
	}
	return IfaceV{T: types.NewPointer(t), V: newHashObject(h)}
}

// asHashObject finds the hash object behind a value: a hash pointer, an interface holding one,
// or (up to two levels) a pointer to a struct whose first field is one of those
// (e.g. *hagrid.transcript).
func (in *Interp) asHashObject(v Value, depth int) (HashV, bool) {
	switch x := v.(type) {
	case IfaceV:
		if x.T == nil {
			return HashV{}, false
		}
		return in.asHashObject(x.V, depth)
	case PtrV:
		if x.P == nil || x.Sym != nil {
			return HashV{}, false
		}
		switch y := (*x.P).(type) {
		case HashV:
			return y, true
		case StructV:
			if depth > 0 && len(y) > 0 {
				return in.asHashObject(y[0], depth-1)
			}
		}
	}
	return HashV{}, false
}

func hashStubs() {
	ctor := func(kind string) stubFn {
		return func(in *Interp, fr *frame, fn *ssa.Function, a []Value) Value {
			return newHashObject(HashV{Kind: kind})
		}
	}
	cshake := func(kind string) stubFn {
		return func(in *Interp, fr *frame, fn *ssa.Function, a []Value) Value {
			return newHashObject(HashV{Kind: kind, N: in.sliceTerms(a[0], "cSHAKE N"), S: in.sliceTerms(a[1], "cSHAKE S")})
		}
	}
	stubs["crypto/sha3.NewSHAKE128"], stubs["crypto/sha3.NewSHAKE256"] = ctor("shake128"), ctor("shake256")
	stubs["crypto/sha3.NewCSHAKE128"], stubs["crypto/sha3.NewCSHAKE256"] = cshake("shake128"), cshake("shake256")
	for _, n := range []string{"224", "256", "384", "512"} {
		stubs["crypto/sha3.New"+n] = ctor("sha3-" + n)
	}
	method := func(zeroKind, m string) stubFn {
		return func(in *Interp, fr *frame, fn *ssa.Function, a []Value) Value {
			return in.hashMethod(fr, a[0], zeroKind, m, a[1:])
		}
	}
	for _, m := range []string{"Write", "Read", "Reset", "BlockSize"} {
		stubs["(*crypto/sha3.SHAKE)."+m] = method("shake256", m)
	}
	for _, m := range []string{"Write", "Sum", "Reset", "Size", "BlockSize"} {
		stubs["(*crypto/sha3.SHA3)."+m] = method("sha3-256", m)
	}
	// one-shot digests
	sum := func(kind string) stubFn {
		return func(in *Interp, fr *frame, fn *ssa.Function, a []Value) Value {
			p, _ := hashParamsOf(kind)
			h := HashV{Kind: kind, Log: in.sliceTerms(a[0], kind)}
			in.StubHit["hashlog:"+kind+".Sum"] = true
			out := in.hashOutput(h, 0, p.size)
			arr := make(ArrayV, len(out))
			for i, o := range out {
				arr[i] = o
			}
			return arr
		}
	}
	stubs["crypto/sha3.Sum224"], stubs["crypto/sha3.Sum256"] = sum("sha3-224"), sum("sha3-256")
	stubs["crypto/sha3.Sum384"], stubs["crypto/sha3.Sum512"] = sum("sha3-384"), sum("sha3-512")
	stubs["crypto/sha256.Sum256"], stubs["crypto/sha256.Sum224"] = sum("sha256"), sum("sha224")
	stubs["crypto/sha512.Sum512"], stubs["crypto/sha512.Sum384"] = sum("sha512"), sum("sha384")
	stubs["crypto/sha512.Sum512_256"], stubs["crypto/sha512.Sum512_224"] = sum("sha512-256"), sum("sha512-224")
	stubs["golang.org/x/crypto/blake2b.Sum256"], stubs["golang.org/x/crypto/blake2b.Sum512"] = sum("blake2b-32"), sum("blake2b-64")
	stubs["golang.org/x/crypto/blake2b.Sum384"] = sum("blake2b-48")
	// hash.Hash constructors
	iface := func(kind, pkg, typ string) stubFn {
		return func(in *Interp, fr *frame, fn *ssa.Function, a []Value) Value {
			return in.hashIface(HashV{Kind: kind}, pkg, typ)
		}
	}
	stubs["crypto/sha256.New"] = iface("sha256", "crypto/internal/fips140/sha256", "Digest")
	stubs["crypto/sha256.New224"] = iface("sha224", "crypto/internal/fips140/sha256", "Digest")
	stubs["crypto/sha512.New"] = iface("sha512", "crypto/internal/fips140/sha512", "Digest")
	stubs["crypto/sha512.New384"] = iface("sha384", "crypto/internal/fips140/sha512", "Digest")
	stubs["crypto/sha512.New512_256"] = iface("sha512-256", "crypto/internal/fips140/sha512", "Digest")
	stubs["crypto/sha512.New512_224"] = iface("sha512-224", "crypto/internal/fips140/sha512", "Digest")
	b2 := func(size int) stubFn {
		return func(in *Interp, fr *frame, fn *ssa.Function, a []Value) Value {
			n := size
			keyArg := a[0]
			if size == 0 { // blake2b.New(size, key)
				n = in.constInt(a[0], "blake2b.New size")
				keyArg = a[1]
			}
			key := in.sliceTerms(keyArg, "blake2b key")
			if n < 1 || n > 64 || len(key) > 64 {
				return in.notEncodable("blake2b: invalid size %d or key length %d (error path not modelled)", n, len(key))
			}
			h := in.hashIface(HashV{Kind: fmt.Sprintf("blake2b-%d", n), Key: key}, "golang.org/x/crypto/blake2b", "digest")
			return TupleV{h, IfaceV{}}
		}
	}
	stubs["golang.org/x/crypto/blake2b.New256"], stubs["golang.org/x/crypto/blake2b.New384"] = b2(32), b2(48)
	stubs["golang.org/x/crypto/blake2b.New512"], stubs["golang.org/x/crypto/blake2b.New"] = b2(64), b2(0)

	intrinsics["verifHashLog"] = func(in *Interp, fr *frame, fn *ssa.Function, a []Value) Value {
		h, ok := in.asHashObject(a[0], 2)
		if !ok {
			panic(&abort{abNotEncodable, fmt.Sprintf("verifHashLog: argument is not a modelled hash object (%s)", describe(a[0]))})
		}
		return termsToSlice(in.hashFullLog(h))
	}
	intrinsics["verifHashHistory"] = func(in *Interp, fr *frame, fn *ssa.Function, a []Value) Value {
		h, ok := in.asHashObject(a[0], 2)
		if !ok {
			panic(&abort{abNotEncodable, fmt.Sprintf("verifHashHistory: argument is not a modelled hash object (%s)", describe(a[0]))})
		}
		e := make([]Value, len(h.Hist))
		for i, l := range h.Hist {
			e[i] = termsToSlice(l)
		}
		return SliceV{E: e}
	}
}
