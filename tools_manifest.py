#!/usr/bin/env python3
"""Regenerates MANIFEST.json from the table below (kept as code so that it stays consistent)."""
import json
props=[json.loads(l)['id'] for l in open('/verif/properties.jsonl')]
E2="E2 symgen: the library's own generic code (generic over algebra.PrimeField/PrimeGroup) is instantiated with a type whose values are SMT terms modulo the REAL group order and executed natively; every data-dependent branch and every assertion is decided by z3 (5.1) with fallback/cross solvers; raw-form re-check of every validity verdict; counterexamples replayed concretely (model and, where possible, real secp256k1)"
E1="E1 ssasym: SSA-level symbolic interpreter (go/ssa) of the real non-generic byte/int code, bit-vector SMT-LIB2 queries to z3, counterexamples replayed against the natively compiled package"
checks={
 "C02":("E2","kw/MSP scheme for every policy of the corpus (threshold, unanimity, all antichain CNFs ≤4, hierarchical layouts, gate trees incl. non-ideal), all subsets: policy/MSP/scheme agreement, solver as independent span oracle, reconstruction = secret, additive conversion, linearity, privacy kernel query through the real dealer; secret and dealer randomness symbolic mod the real group order","policies ≤4 shareholders (≤5 thorough), concrete IDs/policies; symbolic IDs, >5 parties, share uniformity outside; Shamir/additive/ISN/Tassa schemes not yet harnessed","8.C02"),
 "C03":("E2","real Gennaro DKG (Fiat–Shamir) run round by round with every party's random stream symbolic, and trusted dealer: no honest abort on any path, one PK/verification vector, shares match public shares, every qualified set reconstructs dlog(PK) (scalar and exponent), unqualified refused, PK = sum of dealer secrets","2–3 parties quick (4 thorough), 6 structures; ROM idealisation for hashes; Canetti DKG, runner, reload outside","8.C03"),
 "C04":("E2","fault injection into the real Gennaro DKG with a SYMBOLIC offset δ≠0: share components, vector entries (proof unchanged), Feldman vector honestly re-proved for another column, resized vectors, dropped broadcast: every party that can notice rejects on every path, blames only the deviator, abort demanded; any shard still output is consistent","Gennaro only so far; class-B (hash-bound) faults under ROM; signing/refresh protocols, OT, encodings outside","8.C04"),
 "C05":("E2","feldman/pedersen Verify on an ARBITRARY share and ARBITRARY verification vector: accept ⇒ match and reject ⇒ mismatch on every path; δ-tampering of every component/entry, wrong holder, wrong lengths, combination of dealings, reconstruction in the exponent","every holder of ≤6 policies per family (whole corpus thorough); real curves by replay only","8.C05"),
 "C09":("E1","transpose64 (all 4096 bits), TransposePackedBits fast≡slow/involution/shape errors, Pack/Unpack/Get/Set/Clear/Swap/Repeat/Parse vs bit-level specs, bf128 Add/Mul-by-basis/bytes/select","bit helpers and GF(2^128) on a basis only; OT protocols, SoftSpoken rounds, RVOLE outside; bf128.Mul bilinearity assumed","8.C09"),
 "C10":("E2","real session.NewContext/SubContext with concrete symmetric seeds, przs.SampleZeroShare over field and group for every quorum and sub-quorum: shares sum to identity (pairwise PRG outputs symbolic); session id / transcript agreement","2–4 parties (5 thorough); interactive setup rounds and seed distinctness are hash-level (outside)","8.C10"),
 "C14":("E1","generated secp256k1 field code at full 256-bit width: fiatFp/FqAdd/Sub/Opp ≡ (a±b) mod p for all a,b<p, select/cmov/nonzero, bytes round trip","linear part of k256 fields only so far; Mul/Square/Inv/Sqrt, point formulas, pairing, other curves outside","8.C14"),
 "C15":("E2","vanilla (configurable) Schnorr with symbolic key and nonce: s·G = R ± e·P recomputed independently, signer self-check, verify accepts, response+δ rejected ∀δ≠0, Sign fails only if the response is 0, other message ⇒ different challenge; ecdsa.NewSignature accepts exactly r,s≠0, v∈0..3","ECDSA verify/recover/normalise, BIP-340, Mina, BLS outside; hashes idealised","8.C15"),
 "C16":("E2","ElGamal over the model group with sk, plaintexts, nonces, scalars symbolic: decrypt∘encrypt = id, textbook form, sk-accelerated = pk paths, all homomorphisms, operation sequences","Paillier entirely outside (big-integer arithmetic)","8.C16"),
 "C17":("E1","pkg/base/ct at full 64-bit width: comparisons, selects, swaps, min/max vs Go operators; CompareBytes and slice helpers for lengths 0..4","ct helpers only so far; saferith-based big-number code outside","8.C17"),
 "C18":("E2","Pedersen commitments with arbitrary second generator: open iff g^m'h^r' = C on every path, single-component changes rejected ∀δ≠0, homomorphisms open to combined message/witness, trapdoor equivocation verifies under the exported key; IND-CPA commitments over ElGamal: open iff (m,r) equal","hash commitments (E1, planned), intcom, transcript-derived keys outside","8.C18"),
 "C20":("E2","mat.SolveRight/SolveLeft with SYMBOLIC right-hand side on a corpus of concrete matrices (rank-deficient, zero pivots, over/under-determined): success ⇒ M·x=b, failure ⇒ no solution exists (solver); inverse/determinant/kernel oracle; products, transposes; Lagrange/Vandermonde interpolation with symbolic coefficients at unsorted/sparse/large nodes, in the exponent; Birkhoff matrix rows = derivative evaluations; polynomial ring laws at a symbolic point; lifting commutes","matrices/nodes concrete (pivots and denominators are inverted); ≤3×3 quick, ≤4×4 thorough; birkhoff.Interpolate with symbolic values outside","8.C20"),
}
reasons={
 "C01":"not built yet (Lindell22 end-to-end on the model group is planned; DKLs23/Lindell17/BLS/CGGMP21 are out of reach: DESIGN §8 C01)",
 "C06":"not built yet (hjky / redistribute round-by-round on the model group planned: DESIGN §8 C06)",
 "C07":"not built yet (reader-discipline monitor and dependence queries planned: DESIGN §8 C07)",
 "C08":"not built yet (sigma protocols on the model group planned: DESIGN §8 C08)",
 "C11":"not built yet (router state machine / echo broadcast under E1 planned; scheduler-level interleavings are out of reach of this family: DESIGN §8 C11)",
 "C12":"not built yet (DTO → constructor validation planned; the CBOR library itself is reflection-based and out of reach: DESIGN §8 C12)",
 "C13":"not built yet (decoder control flow under E1 planned: DESIGN §8 C13)",
 "C19":"not built yet (transcript framing with the hash as a byte log under E1 planned: DESIGN §8 C19)",
}
m={"version":1,
 "setup_cmd":"cd /verif/engine && export GOFLAGS=-mod=mod GOPROXY=off GOSUMDB=off GOTOOLCHAIN=local CGO_ENABLED=0 && mkdir -p bin ../work && go1.26.8 build -tags purego -o bin/symgen ./cmd/symgen && go1.26.8 build -tags purego -o bin/ssasym ./cmd/ssasym && go1.26.8 build -tags purego -o bin/e1check ./cmd/e1check",
 "hooks":{"guard":"verif","enable":"no hooks in /repo: E1 harnesses are injected into /repo packages through go/packages overlays (build tag verif_e1, files live in /verif/engine/harness/e1), E2 harnesses use exported generic APIs from the module /verif/engine (replace => /repo)","baseline_off_cmd":"cd /repo && go test -json -vet=off -count=1 -timeout 25m ./...","source_commits":[],"add_only":True},
 "engines":[{"name":"E2 symgen","path":"/verif/engine/symalg, /verif/engine/harness/e2, /verif/engine/cmd/symgen","serves_properties":[k for k,v in checks.items() if v[0]=="E2"],"kind_free_text":E2},
            {"name":"E1 ssasym","path":"/verif/engine/internal/ssasym, /verif/engine/harness/e1, /verif/engine/cmd/ssasym, /verif/engine/cmd/e1check","serves_properties":[k for k,v in checks.items() if v[0]=="E1"],"kind_free_text":E1}],
 "checks":[], "not_applicable":[]}
for pid in props:
    if pid in checks:
        eng,text,note,ref=checks[pid]
        m["checks"].append({"property_id":pid,"quick_cmd":f"./check {pid} quick","thorough_cmd":f"./check {pid} thorough","evidence_file":f"/verif/evidence/{pid}.json",
          "replay_cmd_template":f"./check {pid} --replay {{path}}","engine":"E2 symgen" if eng=="E2" else "E1 ssasym",
          "level_claimed":{"category":"model_checking","text":"bounded symbolic execution of the real code with an SMT solver as judge: "+text+". Inside the stated bounds the verdict holds for every value (unsat of the negated assertion on every symbolic path); outside them nothing is claimed.","design_ref":"DESIGN.md §"+ref},
          "level_note":note+". Trusted base: z3/cvc5, the encoders (E2 polynomial normal form + raw-term re-check; E1 interpreter validated differentially), Go toolchain.",
          "technique":"solver-based symbolic execution of the real code ("+("generic type-parameter instantiation with SMT-term algebra, z3 Int mod real group order" if eng=="E2" else "go/ssa symbolic interpreter, z3 bit-vectors")+"), counterexample replay"})
    else:
        m["not_applicable"].append({"property_id":pid,"reason":reasons[pid]})
json.dump(m,open('/verif/MANIFEST.json','w'),indent=1,ensure_ascii=False)
print(len(m["checks"]),"checks",len(m["not_applicable"]),"n/a")
