#!/bin/bash
# usage: tools_confirm_mutant.sh <ID> <k>  — confirm a seeded change in its scratch worktree /tmp/wt/<ID>:
# patch applies, tree builds, touched packages' tests pass with it, demo fails with it and passes without.
ID=$1; K=$2; WT=/tmp/wt/$ID; OUT=/tmp/wt/out_$ID
export GOFLAGS= GOPROXY=off GOSUMDB=off GOTOOLCHAIN=local
cd $WT && git checkout -q -- . && git clean -fdq
DIR=$(head -1 $OUT/demo${K}_test.go | sed -E 's/.*(pkg\/[A-Za-z0-9_\/]+).*/\1/' | sed 's/\/$//')
[ -d "$DIR" ] || DIR=$(dirname $DIR)
PKGS=$(grep '^+++ b/' $OUT/patch$K.diff | sed 's/+++ b\///' | xargs -n1 dirname | sort -u | sed 's/^/.\//')
echo "[$ID/$K] demo dir=$DIR touched=$PKGS"
git apply --check $OUT/patch$K.diff || { echo "[$ID/$K] RESULT apply=FAIL"; exit 1; }
cp $OUT/demo${K}_test.go $DIR/zz_demo_test.go
go1.26.8 test -tags purego -count=1 -run 'Demo|demo|C0|C1|C2' ./$DIR > /tmp/wt/confirm_${ID}_${K}_pristine.log 2>&1; P0=$?
git apply $OUT/patch$K.diff
go1.26.8 build -tags purego ./... > /tmp/wt/confirm_${ID}_${K}_build.log 2>&1; B=$?
go1.26.8 test -tags purego -count=1 -run 'Demo|demo|C0|C1|C2' ./$DIR > /tmp/wt/confirm_${ID}_${K}_patched.log 2>&1; P1=$?
rm -f $DIR/zz_demo_test.go
go1.26.8 test -tags purego -count=1 $PKGS > /tmp/wt/confirm_${ID}_${K}_existing.log 2>&1; T=$?
git checkout -q -- . && git clean -fdq
echo "[$ID/$K] RESULT apply=ok build=$B existing_tests_with_patch=$T demo_pristine=$P0 demo_patched=$P1 (want 0 0 0 nonzero)"
