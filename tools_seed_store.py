#!/usr/bin/env python3
"""Store a confirmed seeded change under /verif/seeded/<name>/ and record which checks catch it.
usage: tools_seed_store.py <out_dir> <k> <name> <check ids,comma> [note]
Runs each listed check against /repo with the patch applied (then reverts /repo) and records the verdicts."""
import json, os, shutil, subprocess, sys, re
out, k, name, checks = sys.argv[1], sys.argv[2], sys.argv[3], [c for c in sys.argv[4].split(',') if c]
note = sys.argv[5] if len(sys.argv) > 5 else ""
dst = f"/verif/seeded/{name}"
os.makedirs(dst, exist_ok=True)
shutil.copy(f"{out}/patch{k}.diff", f"{dst}/patch.diff")
shutil.copy(f"{out}/demo{k}_test.go", f"{dst}/demo_test.go")
meta = json.load(open(f"{out}/meta{k}.json"))
confirm = ""
m = re.match(r".*out_(C\d+)$", out)
tag = f"[{m.group(1)}/{k}]"
for l in open("/tmp/wt/confirm_all.log"):
    if l.startswith(tag): confirm += l
verdicts = {}
subprocess.run(["git", "-C", "/repo", "checkout", "--", "."], check=True)
subprocess.run(["git", "-C", "/repo", "apply", f"{dst}/patch.diff"], check=True)
try:
    for c in checks:
        p = subprocess.run(["./check", c, "quick"], cwd="/verif", capture_output=True, text=True)
        lines = [l for l in p.stdout.splitlines() if l.startswith(("VIOLATION", "SUMMARY"))]
        nv = sum(1 for l in lines if l.startswith("VIOLATION"))
        verdicts[c] = {"exit": p.returncode, "violation_lines": nv, "summary": [l[:240] for l in lines if l.startswith("SUMMARY")]}
finally:
    subprocess.run(["git", "-C", "/repo", "checkout", "--", "."], check=True)
meta_out = {
    "property": meta.get("property"),
    "what_changed": meta.get("summary"),
    "needs_to_manifest": meta.get("needs"),
    "files": meta.get("files"),
    "author_runs": meta.get("tests_run"),
    "demonstration": "demo_test.go (first line names the package directory it is copied into); passes on the pinned tree, fails with patch.diff applied",
    "confirmed_by_me": "tools_confirm_mutant.sh in a scratch worktree: patch applies, `go build ./...` ok, existing tests of the touched packages pass with the patch, demonstration passes without and fails with the patch: " + confirm.strip(),
    "checks_run_with_patch_applied_to_repo": verdicts,
    "caught_by": [c for c, v in verdicts.items() if v["exit"] == 1 and v["violation_lines"] > 0],
    "note": note,
}
json.dump(meta_out, open(f"{dst}/meta.json", "w"), indent=1)
print(name, "caught_by", meta_out["caught_by"], {c: v["exit"] for c, v in verdicts.items()})
